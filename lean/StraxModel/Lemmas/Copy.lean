import StraxModel.Model.Copy
import StraxModel.Props.C03
/-
  Helper lemmas for property C16.  Everything here is composition: the storage round trip of C03
  (`Strax.C03.loaded_is_rechunker_output`, `roundtrip_plain_storable`, `meta_consistent`) with the
  stream theorem of C07 (`Strax.C07.rechunk_stream_partial`, `splitOff_good`, `getSplits_gapsRel`), plus
  bookkeeping about streams (`restore`, `setTarget`, appending law-abiding streams), the
  directory-operation plan of the stand-alone rechunker and the lineage tagging.  Core Lean only.
-/
namespace Strax.Copy
open Strax Strax.Storage

abbrev rows (cs : List Chunk) : List Row := cs.flatMap (·.rows)

/-! ### streams: `restore`, `setTarget`, append -/

theorem restore_good {hdr : Header} {rid : String} {c : Chunk} (hg : c.good = true) (hr : c.runId = some rid) :
    (restore hdr rid c).good = true := by
  simp only [Chunk.good, Bool.and_eq_true] at hg ⊢
  obtain ⟨hwf, hs⟩ := hg
  refine ⟨?_, ?_⟩
  · rw [Chunk.wf_iff] at hwf ⊢
    simpa [restore] using hwf
  · rw [Chunk.simple_iff] at hs ⊢
    obtain ⟨hsub, _⟩ := hs
    exact ⟨by simpa [restore] using hsub, rid, by simpa [restore] using hr, by simp [restore]⟩

theorem setTarget_good {t : Nat} {c : Chunk} (hg : c.good = true) : (setTarget t c).good = true := by
  simp only [Chunk.good, Bool.and_eq_true] at hg ⊢
  obtain ⟨hwf, hs⟩ := hg
  refine ⟨?_, ?_⟩
  · rw [Chunk.wf_iff] at hwf ⊢
    simpa [setTarget] using hwf
  · rw [Chunk.simple_iff] at hs ⊢
    simpa [setTarget] using hs

/-- a map that keeps goodness, start, stop and run id, and gives every chunk the same data type,
keeps a stream law-abiding -/
theorem lawAbiding_map {g : Chunk → Chunk} (s : List Chunk) (hl : LawAbiding s = true)
    (hgood : ∀ c ∈ s, (g c).good = true) (hst : ∀ c, (g c).start = c.start) (hsp : ∀ c, (g c).stop = c.stop)
    (hrun : ∀ c, (g c).runId = c.runId)
    (hdt : ∀ a b, a.dataType = b.dataType → (g a).dataType = (g b).dataType) :
    LawAbiding (s.map g) = true := by
  induction s with
  | nil => rfl
  | cons a l ih =>
    rw [lawAbiding_cons] at hl
    obtain ⟨_, hlink, hrest⟩ := hl
    simp only [List.map_cons]
    rw [lawAbiding_cons]
    refine ⟨hgood a (by simp), ?_, ih hrest (fun c hc => hgood c (by simp [hc]))⟩
    intro b hb
    cases l with
    | nil => simp at hb
    | cons b0 l' =>
      simp only [List.map_cons, List.head?_cons, Option.some.injEq] at hb
      subst hb
      have := hlink b0 (by simp)
      exact ⟨by rw [hsp, hst]; exact this.1, hdt _ _ this.2.1, by rw [hrun, hrun]; exact this.2.2⟩

theorem lawAbiding_map_setTarget (t : Nat) (s : List Chunk) (hl : LawAbiding s = true) :
    LawAbiding (s.map (setTarget t)) = true := by
  have hall : ∀ c ∈ s, c.good = true := by
    cases s with
    | nil => intro c hc; simp at hc
    | cons a l => exact fun c hc => (lawAbiding_all a l hl c hc).1
  exact lawAbiding_map s hl (fun c hc => setTarget_good (hall c hc)) (fun _ => rfl) (fun _ => rfl) (fun _ => rfl)
    (fun _ _ h => h)

theorem lawAbiding_map_stamp (t : Option Nat) (s : List Chunk) (hl : LawAbiding s = true) :
    LawAbiding (s.map (stamp t)) = true := by
  cases t with
  | none =>
    have : stamp none = id := by funext c; rfl
    rw [this, List.map_id]; exact hl
  | some t => exact lawAbiding_map_setTarget t s hl

theorem lawAbiding_map_restore (hdr : Header) (rid : String) (s : List Chunk) (hl : LawAbiding s = true)
    (hr : s.head?.bind (·.runId) = some rid) : LawAbiding (s.map (restore hdr rid)) = true := by
  cases s with
  | nil => rfl
  | cons a l =>
    have hall := lawAbiding_all a l hl
    simp only [List.head?_cons, Option.bind_some] at hr
    exact lawAbiding_map (a :: l) hl (fun c hc => restore_good (hall c hc).1 (by rw [(hall c hc).2, hr]))
      (fun _ => rfl) (fun _ => rfl) (fun _ => rfl) (fun _ _ _ => rfl)

/-- two law-abiding streams that meet (last stop = first start, same data type and run) form one -/
theorem lawAbiding_append (a b : List Chunk) (ha : LawAbiding a = true) (hb : LawAbiding b = true)
    (hmeet : ∀ x y, a.getLast? = some x → b.head? = some y →
      x.stop = y.start ∧ x.dataType = y.dataType ∧ x.runId = y.runId) :
    LawAbiding (a ++ b) = true := by
  induction a with
  | nil => simpa using hb
  | cons x xs ih =>
    rw [lawAbiding_cons] at ha
    obtain ⟨hx, hlink, hrest⟩ := ha
    simp only [List.cons_append]
    rw [lawAbiding_cons]
    refine ⟨hx, ?_, ?_⟩
    · intro y hy
      cases xs with
      | nil =>
        simp only [List.nil_append] at hy
        exact hmeet x y (by simp) hy
      | cons x' xs' =>
        simp only [List.cons_append, List.head?_cons, Option.some.injEq] at hy
        subst hy
        exact hlink _ (by simp)
    · cases xs with
      | nil => simpa using hb
      | cons x' xs' =>
        apply ih hrest
        intro u v hu hv
        exact hmeet u v (by simpa [List.getLast?_cons_cons] using hu) hv

theorem rows_map_setTarget (t : Nat) (s : List Chunk) : rows (s.map (setTarget t)) = rows s := by
  induction s with
  | nil => rfl
  | cons c cs ih => simp [rows, List.flatMap_cons, setTarget] at ih ⊢; exact ih

theorem rows_map_stamp (t : Option Nat) (s : List Chunk) : rows (s.map (stamp t)) = rows s := by
  cases t with
  | none =>
    have : stamp none = id := by funext c; rfl
    rw [this, List.map_id]
  | some t => exact rows_map_setTarget t s

theorem head_map_start (g : Chunk → Chunk) (hst : ∀ c, (g c).start = c.start) (s : List Chunk) :
    (s.map g).head?.map (·.start) = s.head?.map (·.start) := by
  cases s <;> simp [hst]

theorem last_map_stop (g : Chunk → Chunk) (hsp : ∀ c, (g c).stop = c.stop) (s : List Chunk) :
    (s.map g).getLast?.map (·.stop) = s.getLast?.map (·.stop) := by
  rw [List.getLast?_map]
  cases s.getLast? <;> simp [hsp]

theorem head_map_runId (g : Chunk → Chunk) (hr : ∀ c, (g c).runId = c.runId) (s : List Chunk) :
    (s.map g).head?.bind (·.runId) = s.head?.bind (·.runId) := by
  cases s <;> simp [hr]

/-! ### the storage round trip with a C07-law-abiding result -/

/-- what the destination of a successful save holds, relative to the stream `s` that was written
and the stream `loaded` that comes back -/
structure Preserved (hdr : Header) (rid : String) (re : Bool) (s loaded : List Chunk) : Prop where
  law : LawAbiding loaded = true
  rows_eq : rows loaded = rows s
  start_eq : loaded.head?.map (·.start) = s.head?.map (·.start)
  stop_eq : loaded.getLast?.map (·.stop) = s.getLast?.map (·.stop)
  run : loaded.head?.bind (·.runId) = some rid
  runs : ∀ c ∈ loaded, c.runId = some rid
  hdr_fields : ∀ c ∈ loaded, c.target = hdr.target ∧ c.dataType = hdr.dataType ∧ c.kind = hdr.kind
  lawB : lawAbidingB loaded = true
  boundary : boundaryRuleB s loaded = true
  plain : re = false → loaded = s.map (restore hdr rid)
  nonempty : loaded ≠ []

/-- **The work-horse.**  A C07-law-abiding, non-empty stream of a plain run, saved (with or without
rechunking; with rechunking the targets are at least one row) and loaded back: both steps succeed
and the loaded stream is again C07-law-abiding with the same rows, range and run.
Composition of `Strax.C07.rechunk_stream_partial`, `Strax.C03.loaded_is_rechunker_output` and
`Strax.C03.roundtrip_plain_storable`. -/
theorem roundtrip_strong (re : Bool) (hdr : Header) (rid : String) (s : List Chunk)
    (hne : s ≠ []) (hl : LawAbiding s = true) (ht : re = true → ∀ c ∈ s, 1 ≤ c.target)
    (hrid : s.head?.bind (·.runId) = some rid) (hplain : rid.startsWith "_" = false)
    (hmd : hdr.runId.startsWith "_" = false) :
    ∃ md files loaded, saveAll Generated.getSplitsArgmin0 re hdr s = .ok (md, files) ∧
      loadAll md files = .ok loaded ∧ Preserved hdr rid re s loaded := by
  obtain ⟨a, l, rfl⟩ : ∃ a l, s = a :: l := by
    cases s with
    | nil => exact absurd rfl hne
    | cons a l => exact ⟨a, l, rfl⟩
  have hra : a.runId = some rid := by simpa using hrid
  -- the stream that is actually written
  have key : ∀ out : List Chunk, rechunkAll Generated.getSplitsArgmin0 ⟨re, false, none⟩ (a :: l) = .ok out →
      LawAbiding out = true → rows out = rows (a :: l) →
      out.head?.map (·.start) = (a :: l).head?.map (·.start) →
      out.getLast?.map (·.stop) = (a :: l).getLast?.map (·.stop) →
      out.head?.map (·.runId) = (a :: l).head?.map (·.runId) →
      boundaryRuleB (a :: l) out = true → (re = false → out = a :: l) →
      ∃ md files loaded, saveAll Generated.getSplitsArgmin0 re hdr (a :: l) = .ok (md, files) ∧
        loadAll md files = .ok loaded ∧ Preserved hdr rid re (a :: l) loaded := by
    intro out hre hlaw hrows hstart hstop hrun hb hoff
    obtain ⟨b, m, rfl⟩ : ∃ b m, out = b :: m := by
      cases out with
      | nil => simp at hstart
      | cons b m => exact ⟨b, m, rfl⟩
    have hrb : b.runId = some rid := by
      simp only [List.head?_cons, Option.map_some, Option.some.injEq] at hrun
      rw [hrun, hra]
    have hall := lawAbiding_all b m hlaw
    have hruns : ∀ c ∈ b :: m, c.runId = some rid := fun c hc => by rw [(hall c hc).2, hrb]
    have hst : (b :: m).all (storableB rid) = true := by
      rw [List.all_eq_true]
      intro c hc
      exact storable_of_good (hall c hc).1 (hruns c hc) hplain
    refine ⟨metaOf hdr (b :: m), filesFrom hdr.pfx 0 (b :: m), (b :: m).map (restore hdr rid), ?_, ?_, ?_⟩
    · rw [saveAll_eq, hmd, hre]; rfl
    · exact loadAll_saved hdr rid (b :: m) (by simp) (fun c hc => List.all_eq_true.1 hst c hc)
    · refine ⟨lawAbiding_map_restore hdr rid _ hlaw (by simpa using hrb), ?_, ?_, ?_, ?_, ?_, ?_, ?_, ?_, ?_, by simp⟩
      · rw [show rows ((b :: m).map (restore hdr rid)) = rows (b :: m) from flatMap_rows_restore hdr rid _, hrows]
      · rw [head_map_start (restore hdr rid) (fun _ => rfl), hstart]
      · rw [last_map_stop (restore hdr rid) (fun _ => rfl), hstop]
      · simpa [restore] using hrb
      · intro c hc
        simp only [List.mem_map] at hc
        obtain ⟨c0, hc0, rfl⟩ := hc
        simpa [restore] using hruns c0 hc0
      · intro c hc
        simp only [List.mem_map] at hc
        obtain ⟨c0, _, rfl⟩ := hc
        simp [restore]
      · rw [lawAbidingB_restore]; exact lawAbidingB_of_LawAbiding _ hlaw
      · rw [boundaryRuleB_restore]; exact hb
      · intro h; rw [hoff h]
  cases re with
  | false =>
    refine key (a :: l) (rechunkAll_off _ _ _) hl rfl rfl rfl rfl ?_ (fun _ => rfl)
    unfold boundaryRuleB
    rw [List.all_eq_true]
    intro t ht'
    simp [ht']
  | true =>
    obtain ⟨out, hre, hrows, hstart, hstop, hlaw, hrun, _, hb⟩ := Strax.C07.rechunk_stream_partial (a :: l) hl (ht rfl)
    exact key out hre hlaw hrows hstart hstop hrun (boundaryRuleB_of_prop _ _ hb) (fun h => by cases h)

/-- a stream that was loaded from storage is not empty -/
theorem loadAll_ne_nil {md : Meta} {files : Files} {s : List Chunk} (h : loadAll md files = .ok s) : s ≠ [] := by
  unfold loadAll at h
  split at h
  · cases h
  · rename_i hne
    intro hs
    subst hs
    have : ∀ (l : List ChunkInfo) (out : List Chunk), l.mapM (loadChunk md files) = .ok out → out.length = l.length := by
      intro l
      induction l with
      | nil => intro out h; simp [pure, Except.pure] at h; subst h; rfl
      | cons x xs ih =>
        intro out h
        rw [List.mapM_cons] at h
        cases hx : loadChunk md files x with
        | error e => simp [hx, bind, Except.bind] at h
        | ok c =>
          cases hxs : xs.mapM (loadChunk md files) with
          | error e => simp [hx, hxs, bind, Except.bind] at h
          | ok cs =>
            simp only [hx, hxs, bind, Except.bind, pure, Except.pure, Except.ok.injEq] at h
            subst h
            simp [ih cs hxs]
    have hlen := this _ _ h
    simp only [List.length_nil] at hlen
    have : md.chunks = [] := List.length_eq_zero_iff.1 hlen.symm
    simp [this] at hne


/-! ### `copy_to_frontend` -/

@[simp] theorem copyHeader_runId (hdr : Header) (re : Bool) (rt : Nat) : (copyHeader hdr re rt).runId = hdr.runId := by
  unfold copyHeader; split <;> rfl
@[simp] theorem rechunkHeader_runId (hdr : Header) (t : Option Nat) : (rechunkHeader hdr t).runId = hdr.runId := by
  unfold rechunkHeader; split <;> rfl

theorem copy_core (src : Dir) (s : List Chunk) (rid : String) (re : Bool) (rt : Nat)
    (hload : loadDir src = .ok s) (hl : LawAbiding s = true)
    (hrid : s.head?.bind (·.runId) = some rid) (hplain : rid.startsWith "_" = false)
    (hmd : src.1.hdr.runId.startsWith "_" = false) (ht : re = true → 1 ≤ rt) :
    ∃ dst loaded, copyData Generated.getSplitsArgmin0 src re rt = .ok dst ∧ loadDir dst = .ok loaded ∧
      Preserved (copyHeader src.1.hdr re rt) rid re (s.map (setTarget (copyHeader src.1.hdr re rt).target)) loaded := by
  have hne := loadAll_ne_nil hload
  obtain ⟨md, files, loaded, h1, h2, h3⟩ := roundtrip_strong re (copyHeader src.1.hdr re rt) rid
    (s.map (setTarget (copyHeader src.1.hdr re rt).target)) (by simpa using hne)
    (lawAbiding_map_setTarget _ s hl)
    (by
      intro hre c hc
      simp only [List.mem_map] at hc
      obtain ⟨c0, _, rfl⟩ := hc
      subst hre
      simpa [setTarget, copyHeader] using ht rfl)
    (by rw [head_map_runId (setTarget _) (fun _ => rfl)]; exact hrid) hplain (by simpa using hmd)
  refine ⟨(md, files), loaded, ?_, h2, h3⟩
  unfold copyData
  simp only [hload, bind, Except.bind]
  exact h1

/-- with a loader per target every iteration of the loop is a full `copyData` -/
theorem copyLoop_fresh (a0 : Int) (src : Dir) (rechunk : Bool) (rechunkTo : Nat) (dst : Dir)
    (h : copyData a0 src rechunk rechunkTo = .ok dst) : ∀ (n : Nat) (shared : List Chunk),
    copyLoop a0 src (copyHeader src.1.hdr rechunk rechunkTo) rechunk true shared n = List.replicate n (.ok dst) := by
  intro n
  induction n with
  | zero => intro _; rfl
  | succ n ih =>
    intro shared
    unfold copyData at h
    cases hl : loadDir src with
    | error e => simp [hl, bind, Except.bind] at h
    | ok cs =>
      simp only [hl, bind, Except.bind] at h
      simp only [copyLoop, if_true, hl, h, ih [], List.replicate_succ]

/-! ### the stand-alone rechunker: plan and store -/

def safeOp : FsOp → Bool
  | .rmSrc => false
  | .moveDst => false
  | _ => true

theorem applyOp_safe {st : Store} {o : FsOp} (hal : st.aliased = false) (ho : safeOp o = true) :
    (applyOp st o).src = st.src ∧ (applyOp st o).aliased = false := by
  cases o with
  | initTemp hdr => simp [applyOp, Store.setDst, hal]
  | writeChunk fn r =>
    simp only [applyOp]
    cases st.tmp with
    | none => exact ⟨rfl, hal⟩
    | some p => exact ⟨rfl, hal⟩
  | closeRename md =>
    simp only [applyOp]
    cases st.tmp with
    | none => exact ⟨rfl, hal⟩
    | some p => simp [Store.setDst, hal]
  | rmSrc => cases ho
  | moveDst => cases ho

/-- operations that are not `rmtree(source)` / `move(dest, source)` never touch the source
directory (when the destination is a different directory) -/
theorem runOps_safe (l : List FsOp) : ∀ (st : Store), st.aliased = false → (∀ o ∈ l, safeOp o = true) →
    (runOps st l).src = st.src ∧ (runOps st l).aliased = false := by
  induction l with
  | nil => intro st hal _; exact ⟨rfl, hal⟩
  | cons o l ih =>
    intro st hal hs
    have h1 := applyOp_safe hal (hs o (by simp))
    have h2 := ih (applyOp st o) h1.2 (fun x hx => hs x (by simp [hx]))
    simp only [runOps, List.foldl_cons] at h2 ⊢
    exact ⟨by rw [h2.1, h1.1], h2.2⟩

theorem runOps_append (st : Store) (a b : List FsOp) : runOps st (a ++ b) = runOps (runOps st a) b := by
  simp [runOps, List.foldl_append]

theorem foldl_writeFile (pfx : String) (cs : List Chunk) : ∀ (i : Nat) (fs : Files), NamesBelow pfx i fs →
    (filesFrom pfx i cs).foldl (fun acc p => writeFile acc p.1 p.2) fs = fs ++ filesFrom pfx i cs := by
  induction cs with
  | nil => intro i fs _; simp [filesFrom]
  | cons c cs ih =>
    intro i fs hb
    simp only [filesFrom]
    split
    · exact ih (i + 1) fs (fun p hp => by obtain ⟨j, hj, hn⟩ := hb p hp; exact ⟨j, by omega, hn⟩)
    · simp only [List.foldl_cons]
      rw [writeFile_fresh hb, ih (i + 1)]
      · simp
      · intro p hp
        simp only [List.mem_append, List.mem_singleton] at hp
        rcases hp with hp | rfl
        · obtain ⟨j, hj, hn⟩ := hb p hp; exact ⟨j, by omega, hn⟩
        · exact ⟨i, by omega, rfl⟩

theorem runOps_writes (fl : Files) : ∀ (st : Store) (m : Meta) (fs : Files), st.tmp = some (m, fs) →
    runOps st (fl.map fun p => FsOp.writeChunk p.1 p.2) =
      { st with tmp := some (m, fl.foldl (fun acc p => writeFile acc p.1 p.2) fs) } := by
  induction fl with
  | nil => intro st m fs h; simp [runOps, ← h]
  | cons p fl ih =>
    intro st m fs h
    simp only [List.map_cons, runOps, List.foldl_cons]
    have : applyOp st (.writeChunk p.1 p.2) = { st with tmp := some (m, writeFile fs p.1 p.2) } := by
      simp [applyOp, h]
    rw [this]
    have := ih { st with tmp := some (m, writeFile fs p.1 p.2) } m (writeFile fs p.1 p.2) rfl
    simp only [runOps] at this
    rw [this]

/-- `saveAll` succeeded: the saver state is the one `saveFrom` returns, and its files are the
closed form of C03 -/
theorem saveFrom_of_saveAll {a0 : Int} {re : Bool} {hdr : Header} {s : List Chunk} {md : Meta} {files : Files}
    (h : saveAll a0 re hdr s = .ok (md, files)) :
    (∃ sv, saveFrom a0 re hdr s = (sv, none) ∧ sv.md = md ∧ sv.files = files) ∧
    ∃ out, files = filesFrom hdr.pfx 0 out := by
  constructor
  · unfold saveAll at h
    generalize saveFrom a0 re hdr s = r at h
    obtain ⟨sv, e⟩ := r
    cases e with
    | none =>
      simp only [pure, Except.pure, Except.ok.injEq, Prod.mk.injEq] at h
      exact ⟨sv, rfl, h.1, h.2⟩
    | some e => simp [throw, throwThe, MonadExceptOf.throw] at h
  · rw [saveAll_eq] at h
    cases hr : rechunkAll a0 ⟨re, hdr.runId.startsWith "_", none⟩ s with
    | error e => simp [hr, Except.map] at h
    | ok out =>
      simp only [hr, Except.map, Except.ok.injEq, Prod.mk.injEq] at h
      exact ⟨out, h.2.symm⟩

/-- the safe part of the plan: create the temp directory, write every chunk file, close -/
def writePlan (hdr : Header) (md : Meta) (files : Files) : List FsOp :=
  FsOp.initTemp hdr :: files.map (fun p => FsOp.writeChunk p.1 p.2) ++ [.closeRename md]

theorem writePlan_safe (hdr : Header) (md : Meta) (files : Files) : ∀ o ∈ writePlan hdr md files, safeOp o = true := by
  intro o ho
  simp only [writePlan, List.cons_append, List.mem_cons, List.mem_append, List.mem_map, List.not_mem_nil, or_false] at ho
  rcases ho with rfl | ⟨p, _, rfl⟩ | rfl <;> rfl

theorem runOps_writePlan (st : Store) (hal : st.aliased = false) (hdr : Header) (md : Meta) (out : List Chunk) :
    runOps st (writePlan hdr md (filesFrom hdr.pfx 0 out)) =
      { st with tmp := none, dst := some (md, filesFrom hdr.pfx 0 out) } := by
  unfold writePlan
  rw [show FsOp.initTemp hdr :: List.map (fun p => FsOp.writeChunk p.1 p.2) (filesFrom hdr.pfx 0 out) ++ [FsOp.closeRename md]
      = [FsOp.initTemp hdr] ++ (List.map (fun p => FsOp.writeChunk p.1 p.2) (filesFrom hdr.pfx 0 out) ++ [FsOp.closeRename md]) by rfl]
  rw [runOps_append, runOps_append]
  have h0 : runOps st [FsOp.initTemp hdr] = { st with dst := none, tmp := some (freshMeta hdr, []) } := by
    simp [runOps, applyOp, Store.setDst, hal]
  rw [h0, runOps_writes _ _ (freshMeta hdr) [] rfl, foldl_writeFile hdr.pfx out 0 [] (by intro p hp; simp at hp)]
  simp [runOps, applyOp, Store.setDst, hal]

/-- The plan of a successful run: for a store whose source holds loadable, law-abiding data of a
plain run and whose destination is another directory. -/
theorem plan_ok (guard : Bool) (st : Store) (src : Dir) (s : List Chunk) (rid : String) (replace re : Bool)
    (target : Option Nat) (hsrc : st.src = some src) (hal : st.aliased = false)
    (hload : loadDir src = .ok s) (hl : LawAbiding s = true)
    (hrid : s.head?.bind (·.runId) = some rid) (hplain : rid.startsWith "_" = false)
    (hmd : src.1.hdr.runId.startsWith "_" = false)
    (ht : re = true → ∀ c ∈ s, 1 ≤ (stamp target c).target) :
    ∃ md out loaded,
      rechunkPlan Generated.getSplitsArgmin0 guard st replace re target =
        (writePlan (rechunkHeader src.1.hdr target) md (filesFrom (rechunkHeader src.1.hdr target).pfx 0 out) ++
          (if replace then [.rmSrc, .moveDst] else []), none) ∧
      saveAll Generated.getSplitsArgmin0 re (rechunkHeader src.1.hdr target) (s.map (stamp target)) =
        .ok (md, filesFrom (rechunkHeader src.1.hdr target).pfx 0 out) ∧
      loadAll md (filesFrom (rechunkHeader src.1.hdr target).pfx 0 out) = .ok loaded ∧
      Preserved (rechunkHeader src.1.hdr target) rid re (s.map (stamp target)) loaded := by
  have hne := loadAll_ne_nil hload
  obtain ⟨md, files, loaded, h1, h2, h3⟩ := roundtrip_strong re (rechunkHeader src.1.hdr target) rid
    (s.map (stamp target)) (by simpa using hne) (lawAbiding_map_stamp _ s hl)
    (by
      intro hre c hc
      simp only [List.mem_map] at hc
      obtain ⟨c0, hc0, rfl⟩ := hc
      exact ht hre c0 hc0)
    (by
      rw [head_map_runId (stamp target) (fun c => by cases target <;> rfl)]; exact hrid)
    hplain (by simpa using hmd)
  obtain ⟨⟨sv, hsv, hm, hf⟩, out, hout⟩ := saveFrom_of_saveAll h1
  subst hout
  refine ⟨md, out, loaded, ?_, h1, h2, h3⟩
  unfold rechunkPlan
  simp only [hsrc, hal, Bool.and_false, Bool.false_eq_true, if_false]
  have hs1 : (applyOp st (FsOp.initTemp (rechunkHeader src.1.hdr target))).src = some src := by
    simp [applyOp, Store.setDst, hal, hsrc]
  simp only [hs1, hload, hsv, hm, hf, Option.isNone_none, Bool.true_and, writePlan]
  cases replace <;> simp

/-- every prefix of the operation sequence: the source is untouched, or — only with `replace` —
it has been removed while the complete destination exists, or it already IS the complete new data -/
theorem plan_prefix (st : Store) (src d' : Dir) (safe : List FsOp) (replace : Bool)
    (hsrc : st.src = some src) (hal : st.aliased = false) (hsafe : ∀ o ∈ safe, safeOp o = true)
    (hfin : (runOps st safe).dst = some d') (k : Nat) :
    let stk := runOps st ((safe ++ (if replace then [FsOp.rmSrc, FsOp.moveDst] else [])).take k)
    stk.src = some src ∨
      (replace = true ∧ safe.length < k ∧ ((stk.src = none ∧ stk.dst = some d') ∨ (stk.src = some d' ∧ stk.dst = none))) := by
  intro stk
  have hsafe_take : ∀ n, (runOps st (safe.take n)).src = some src := by
    intro n
    rw [(runOps_safe _ st hal (fun o ho => hsafe o (List.mem_of_mem_take ho))).1, hsrc]
  have hfull := runOps_safe safe st hal hsafe
  by_cases hk : k ≤ safe.length
  · left
    have : (safe ++ (if replace then [FsOp.rmSrc, FsOp.moveDst] else [])).take k = safe.take k := by
      rw [List.take_append_of_le_length hk]
    simp only [stk, this]
    exact hsafe_take k
  · have hk' : safe.length < k := by omega
    cases replace with
    | false =>
      left
      simp only [stk, Bool.false_eq_true, if_false, List.append_nil]
      rw [List.take_of_length_le (by omega)]
      rw [hfull.1, hsrc]
    | true =>
      right
      refine ⟨rfl, hk', ?_⟩
      simp only [stk, if_true]
      rw [List.take_append, List.take_of_length_le (by omega : safe.length ≤ k), runOps_append]
      obtain ⟨n, hn⟩ : ∃ n, k - safe.length = n + 1 := ⟨k - safe.length - 1, by omega⟩
      rw [hn]
      generalize runOps st safe = S at hfin hfull
      obtain ⟨Ssrc, Stmp, Sdst, Sal⟩ := S
      simp only at hfin hfull
      obtain ⟨_, hSal⟩ := hfull
      subst hfin hSal
      cases n with
      | zero =>
        left
        simp [runOps, applyOp]
      | succ n =>
        right
        have : [FsOp.rmSrc, FsOp.moveDst].take (n + 1 + 1) = [FsOp.rmSrc, FsOp.moveDst] := by simp
        rw [this]
        simp [runOps, applyOp, Store.getDst, Store.setDst]

/-! ### rechunk on load -/

theorem splitLoaded_good (sourceSize : Nat) (hs : 1 ≤ sourceSize) (c : Chunk) (hg : c.good = true) :
    ∃ ps, splitLoaded Generated.getSplitsArgmin0 sourceSize c = .ok ps ∧ LawAbiding ps = true ∧ rows ps = c.rows ∧
      (∃ h, ps.head? = some h ∧ h.start = c.start) ∧ (∃ r, ps.getLast? = some r ∧ r.stop = c.stop) ∧
      (∀ x ∈ ps, x.dataType = c.dataType ∧ x.runId = c.runId ∧ x.target = c.target) ∧
      ∀ t ∈ (ps.map (·.start)).tail, c.start < t ∧ t < c.stop ∧ CleanCut c.rows t := by
  obtain ⟨sp, hsp, hrel⟩ := getSplits_gapsRel c.rows sourceSize hs
  obtain ⟨out, rest, h1, h2, h3, h4, h5, h6, h7⟩ := splitOff_good (adjDiff sp) c hg hrel
  refine ⟨out ++ [rest], ?_, h2, h3, h4, ⟨rest, by simp, h5⟩, h6, h7⟩
  unfold splitLoaded
  have : Generated.getSplitsArgmin0 = -1 := rfl
  rw [this, hsp]
  simp only [bind, Except.bind, h1, pure, Except.pure]

theorem rechunkStream_good (sourceSize : Nat) (hs : 1 ≤ sourceSize) : ∀ (s : List Chunk), LawAbiding s = true →
    ∃ out, rechunkStream Generated.getSplitsArgmin0 sourceSize s = .ok out ∧ LawAbiding out = true ∧ rows out = rows s ∧
      out.head?.map (fun c => (c.start, c.dataType, c.runId)) = s.head?.map (fun c => (c.start, c.dataType, c.runId)) ∧
      out.getLast?.map (·.stop) = s.getLast?.map (·.stop) ∧
      (∀ t ∈ s.map (·.start), t ∈ out.map (·.start)) := by
  intro s
  induction s with
  | nil => intro _; exact ⟨[], rfl, rfl, rfl, rfl, rfl, by simp⟩
  | cons c cs ih =>
    intro hl
    rw [lawAbiding_cons] at hl
    obtain ⟨hg, hlink, hrest⟩ := hl
    obtain ⟨ps, hps, hlaw, hrows, ⟨h, hh, hhs⟩, ⟨r, hr, hrs⟩, hall, _⟩ := splitLoaded_good sourceSize hs c hg
    obtain ⟨out, hout, holaw, horows, ohead, olast, ostarts⟩ := ih hrest
    refine ⟨ps ++ out, ?_, ?_, ?_, ?_, ?_, ?_⟩
    · simp only [rechunkStream, hps, hout, bind, Except.bind, pure, Except.pure]
    · apply lawAbiding_append ps out hlaw holaw
      intro x y hx hy
      rw [hr] at hx
      simp only [Option.some.injEq] at hx
      subst hx
      cases cs with
      | nil =>
        simp only [rechunkStream, pure, Except.pure, Except.ok.injEq] at hout
        subst hout
        simp at hy
      | cons c' cs' =>
        have hc' := hlink c' (by simp)
        rw [hy] at ohead
        simp only [List.head?_cons, Option.map_some, Option.some.injEq, Prod.mk.injEq] at ohead
        have hx := hall r (List.mem_of_getLast? hr)
        exact ⟨by rw [hrs, ohead.1]; exact hc'.1, by rw [hx.1, ohead.2.1]; exact hc'.2.1, by rw [hx.2.1, ohead.2.2]; exact hc'.2.2⟩
    · simp only [rows, List.flatMap_append] at hrows horows ⊢
      rw [hrows, horows]
      simp [List.flatMap_cons]
    · have hx := hall h (List.mem_of_mem_head? hh)
      cases ps with
      | nil => simp at hh
      | cons p ps' =>
        simp only [List.head?_cons, Option.some.injEq] at hh
        subst hh
        simp [hhs, hx.1, hx.2.1]
    · cases cs with
      | nil =>
        simp only [rechunkStream, pure, Except.pure, Except.ok.injEq] at hout
        subst hout
        simp [hr, hrs]
      | cons c' cs' =>
        have hone : out ≠ [] := by
          intro ho; subst ho; simp at ohead
        rw [getLast?_append_ne ps hone, olast]
        simp [List.getLast?_cons_cons]
    · intro t ht
      simp only [List.map_cons, List.mem_cons] at ht
      simp only [List.map_append, List.mem_append]
      rcases ht with rfl | ht
      · left
        rw [← hhs]
        exact List.mem_map.2 ⟨h, List.mem_of_mem_head? hh, rfl⟩
      · right; exact ostarts t ht


/-! ### per-chunk jobs and their merge -/

/-- what strax demands of a plugin that may be processed per chunk: it answers every (good) input
chunk with a good chunk over the same time range, of its own data type and target size, and it
carries no state from one chunk to the next (it is a function of the chunk) -/
structure ChunkWise (f : Chunk → Except Err Chunk) (dt : String) (tt : Nat) : Prop where
  total : ∀ c, c.good = true → ∃ c', f c = .ok c'
  keeps : ∀ c c', c.good = true → f c = .ok c' →
    c'.good = true ∧ c'.start = c.start ∧ c'.stop = c.stop ∧ c'.runId = c.runId ∧ c'.dataType = dt ∧ c'.target = tt

/-- **chunk homomorphism**: applied chunk by chunk to ANY law-abiding chunking the computation
yields the rows of the whole-run computation -/
def ChunkHomRows (f : Chunk → Except Err Chunk) (whole : List Row → List Row) : Prop :=
  ∀ s out, LawAbiding s = true → mapChunks f s = .ok out → rows out = whole (rows s)

theorem mapChunks_append (f : Chunk → Except Err Chunk) (a b oa ob : List Chunk)
    (ha : mapChunks f a = .ok oa) (hb : mapChunks f b = .ok ob) : mapChunks f (a ++ b) = .ok (oa ++ ob) := by
  induction a generalizing oa with
  | nil =>
    simp only [mapChunks, pure, Except.pure, Except.ok.injEq] at ha
    subst ha
    simpa using hb
  | cons c cs ih =>
    simp only [mapChunks] at ha
    cases hc : f c with
    | error e => simp [hc, bind, Except.bind] at ha
    | ok c' =>
      cases hcs : mapChunks f cs with
      | error e => simp [hc, hcs, bind, Except.bind] at ha
      | ok ocs =>
        simp only [hc, hcs, bind, Except.bind, pure, Except.pure, Except.ok.injEq] at ha
        subst ha
        simp only [List.cons_append, mapChunks, hc, ih ocs hcs, bind, Except.bind, pure, Except.pure]

theorem lawAbiding_split (a b : List Chunk) (h : LawAbiding (a ++ b) = true) :
    LawAbiding a = true ∧ LawAbiding b = true ∧
      ∀ x y, a.getLast? = some x → b.head? = some y → x.stop = y.start ∧ x.dataType = y.dataType ∧ x.runId = y.runId := by
  induction a with
  | nil => exact ⟨rfl, by simpa using h, by intro x y hx; simp at hx⟩
  | cons x xs ih =>
    simp only [List.cons_append] at h
    rw [lawAbiding_cons] at h
    obtain ⟨hx, hlink, hrest⟩ := h
    obtain ⟨h1, h2, h3⟩ := ih hrest
    refine ⟨?_, h2, ?_⟩
    · rw [lawAbiding_cons]
      refine ⟨hx, ?_, h1⟩
      intro y hy
      apply hlink
      cases xs with
      | nil => simp at hy
      | cons x' xs' => simpa using hy
    · intro u v hu hv
      cases xs with
      | nil =>
        simp only [List.getLast?_singleton, Option.some.injEq] at hu
        subst hu
        exact hlink v (by simpa using hv)
      | cons x' xs' => exact h3 u v (by simpa [List.getLast?_cons_cons] using hu) hv

/-- the per-chunk computation over a law-abiding stream: total, law-abiding, same ranges -/
theorem mapChunks_good {f : Chunk → Except Err Chunk} {dt : String} {tt : Nat} (hf : ChunkWise f dt tt) :
    ∀ (s : List Chunk), LawAbiding s = true →
      ∃ out, mapChunks f s = .ok out ∧ LawAbiding out = true ∧
        out.head?.map (fun c => (c.start, c.runId)) = s.head?.map (fun c => (c.start, c.runId)) ∧
        out.getLast?.map (·.stop) = s.getLast?.map (·.stop) ∧
        (∀ c ∈ out, c.dataType = dt ∧ c.target = tt) ∧ (s ≠ [] → out ≠ []) := by
  intro s
  induction s with
  | nil => intro _; exact ⟨[], rfl, rfl, rfl, rfl, by simp, by simp⟩
  | cons c cs ih =>
    intro hl
    rw [lawAbiding_cons] at hl
    obtain ⟨hg, hlink, hrest⟩ := hl
    obtain ⟨c', hc'⟩ := hf.total c hg
    obtain ⟨k1, k2, k3, k4, k5, k6⟩ := hf.keeps c c' hg hc'
    obtain ⟨out, ho, holaw, ohead, olast, oall, _⟩ := ih hrest
    refine ⟨c' :: out, ?_, ?_, by simp [k2, k4], ?_, ?_, by simp⟩
    · simp only [mapChunks, hc', ho, bind, Except.bind, pure, Except.pure]
    · rw [lawAbiding_cons]
      refine ⟨k1, ?_, holaw⟩
      intro b hb
      cases cs with
      | nil =>
        simp only [mapChunks, pure, Except.pure, Except.ok.injEq] at ho
        subst ho
        simp at hb
      | cons d ds =>
        rw [hb] at ohead
        simp only [List.head?_cons, Option.map_some, Option.some.injEq, Prod.mk.injEq] at ohead
        have hd := hlink d (by simp)
        have := oall b (List.mem_of_mem_head? hb)
        exact ⟨by rw [k3, ohead.1]; exact hd.1, by rw [k5, this.1], by rw [k4, ohead.2]; exact hd.2.2⟩
    · cases cs with
      | nil =>
        simp only [mapChunks, pure, Except.pure, Except.ok.injEq] at ho
        subst ho
        simp [k3]
      | cons d ds =>
        have hone : out ≠ [] := by intro h; subst h; simp at ohead
        obtain ⟨o, os, rfl⟩ : ∃ o os, out = o :: os := by
          cases out with
          | nil => exact absurd rfl hone
          | cons o os => exact ⟨o, os, rfl⟩
        simpa [List.getLast?_cons_cons] using olast
    · intro x hx
      simp only [List.mem_cons] at hx
      rcases hx with rfl | hx
      · exact ⟨k5, k6⟩
      · exact oall x hx

theorem loadJob_ok {re : Bool} {rt : Nat} {d : Dir} {loaded : List Chunk} (h : loadAll d.1 d.2 = .ok loaded) :
    loadJob re rt d = .ok (loaded.map (setTarget (if re then rt else d.1.hdr.target))) := by
  simp [loadJob, loadDir, h, bind, Except.bind, pure, Except.pure]

/-- all per-chunk jobs followed by the loader of the merge: the concatenated stream the merging
saver is fed is law-abiding and has the rows of the chunk-wise computation over the whole
dependency, whatever the grouping -/
theorem jobs_core {f : Chunk → Except Err Chunk} {dt : String} {tt : Nat} (hf : ChunkWise f dt tt)
    (ros re : Bool) (rt : Nat) (rid : String) (hplain : rid.startsWith "_" = false) (htt : ros = true → 1 ≤ tt) :
    ∀ (gs : List (List Chunk)) (hdrs : List Header), hdrs.length = gs.length → (∀ g ∈ gs, g ≠ []) →
      LawAbiding gs.flatten = true → (∀ c ∈ gs.flatten, c.runId = some rid) →
      (∀ h ∈ hdrs, h.runId.startsWith "_" = false ∧ h.dataType = dt) →
      ∃ ds L out, runJobs Generated.getSplitsArgmin0 f ros hdrs gs = .ok ds ∧ loadJobs re rt ds = .ok L ∧
        mapChunks f gs.flatten = .ok out ∧ LawAbiding L = true ∧ rows L = rows out ∧
        L.head?.map (·.start) = gs.flatten.head?.map (·.start) ∧
        L.getLast?.map (·.stop) = gs.flatten.getLast?.map (·.stop) ∧
        (∀ c ∈ L, c.runId = some rid ∧ c.dataType = dt ∧ (re = true → c.target = rt)) ∧ (gs ≠ [] → L ≠ []) := by
  intro gs
  induction gs with
  | nil =>
    intro hdrs _ _ _ _ _
    refine ⟨[], [], [], ?_, rfl, rfl, rfl, rfl, rfl, rfl, by simp, by simp⟩
    cases hdrs <;> rfl
  | cons g gs ih =>
    intro hdrs hlen hne hl hrun hh
    obtain ⟨h, hs, rfl⟩ : ∃ h hs, hdrs = h :: hs := by
      cases hdrs with
      | nil => simp at hlen
      | cons h hs => exact ⟨h, hs, rfl⟩
    simp only [List.flatten_cons] at hl hrun
    obtain ⟨hlg, hlrest, hmeet⟩ := lawAbiding_split g gs.flatten hl
    have hgne := hne g (by simp)
    obtain ⟨og, hog, hoglaw, oghead, oglast, ogall, ogne⟩ := mapChunks_good hf g hlg
    have hogne := ogne hgne
    obtain ⟨g0, g', rfl⟩ : ∃ g0 g', g = g0 :: g' := by
      cases g with
      | nil => exact absurd rfl hgne
      | cons g0 g' => exact ⟨g0, g', rfl⟩
    have hg0 : g0.runId = some rid := hrun g0 (by simp)
    have hogrid : og.head?.bind (·.runId) = some rid := by
      cases og with
      | nil => exact absurd rfl hogne
      | cons o os =>
        simp only [List.head?_cons, Option.map_some, Option.some.injEq, Prod.mk.injEq] at oghead
        simp [oghead.2, hg0]
    obtain ⟨md, files, loaded, hsave, hloadj, hp⟩ := roundtrip_strong ros h rid og hogne hoglaw
      (fun hr c hc => by rw [(ogall c hc).2]; exact htt hr) hogrid hplain (hh h (by simp)).1
    obtain ⟨ds, L, out, hjobs, hloads, hout, hLlaw, hLrows, hLhead, hLlast, hLall, hLne⟩ :=
      ih hs (by simpa using hlen) (fun x hx => hne x (by simp [hx])) hlrest
        (fun c hc => hrun c (by simp [hc])) (fun x hx => hh x (by simp [hx]))
    let t := if re then rt else h.target
    have hmdhdr : md.hdr = h := by
      rw [saveAll_eq] at hsave
      cases hr : rechunkAll Generated.getSplitsArgmin0 ⟨ros, h.runId.startsWith "_", none⟩ og with
      | error e => simp [hr, Except.map] at hsave
      | ok o =>
        simp only [hr, Except.map, Except.ok.injEq, Prod.mk.injEq] at hsave
        rw [← hsave.1]; rfl
    have hlj : loadJob re rt (md, files) = .ok (loaded.map (setTarget t)) := by
      have := loadJob_ok (re := re) (rt := rt) (d := (md, files)) hloadj
      simpa [hmdhdr, t] using this
    refine ⟨(md, files) :: ds, loaded.map (setTarget t) ++ L, og ++ out, ?_, ?_, ?_, ?_, ?_, ?_, ?_, ?_, ?_⟩
    · simp only [runJobs, perChunkJob, hog, hsave, hjobs, bind, Except.bind, pure, Except.pure]
    · simp only [loadJobs, hlj, hloads, bind, Except.bind, pure, Except.pure]
    · simp only [List.flatten_cons]
      exact mapChunks_append f _ _ _ _ hog hout
    · apply lawAbiding_append _ _ (lawAbiding_map_setTarget t _ hp.law) hLlaw
      intro x y hx hy
      rw [List.getLast?_map] at hx
      cases hlast : loaded.getLast? with
      | none => simp [hlast] at hx
      | some x0 =>
        simp only [hlast, Option.map_some, Option.some.injEq] at hx
        subst hx
        have hx0 := hp.hdr_fields x0 (List.mem_of_getLast? hlast)
        have hx0r := hp.runs x0 (List.mem_of_getLast? hlast)
        have hy' := hLall y (List.mem_of_mem_head? hy)
        -- time: last stop of the job = last stop of the group = first start of the rest
        have e1 : x0.stop = ((g0 :: g').getLast?.map (·.stop)) := by
          have := hp.stop_eq
          rw [hlast, oglast] at this
          simpa using this
        have e2 : some y.start = gs.flatten.head?.map (·.start) := by
          rw [← hLhead, hy]; rfl
        cases hfl : gs.flatten.head? with
        | none => simp [hfl] at e2
        | some z =>
          obtain ⟨w, hw⟩ : ∃ w, (g0 :: g').getLast? = some w := by
            cases hg : (g0 :: g').getLast? with
            | none => simp at hg
            | some w => exact ⟨w, rfl⟩
          have := hmeet w z hw hfl
          rw [hw] at e1
          rw [hfl] at e2
          simp only [Option.map_some, Option.some.injEq] at e1 e2
          refine ⟨by simp only [setTarget]; rw [e1, e2]; exact this.1, ?_, ?_⟩
          · simp only [setTarget]; rw [hx0.2.1, (hh h (by simp)).2, hy'.2.1]
          · simp only [setTarget]; rw [hx0r, hy'.1]
    · simp only [rows, List.flatMap_append] at hLrows ⊢
      rw [hLrows]
      have := hp.rows_eq
      simp only [rows] at this
      rw [show List.flatMap (fun x => x.rows) (List.map (setTarget t) loaded) = List.flatMap (fun x => x.rows) loaded from
        rows_map_setTarget t loaded, this]
    · have hl0 := hp.nonempty
      obtain ⟨l0, ls, rfl⟩ : ∃ l0 ls, loaded = l0 :: ls := by
        cases loaded with
        | nil => exact absurd rfl hl0
        | cons l0 ls => exact ⟨l0, ls, rfl⟩
      have := hp.start_eq
      cases og with
      | nil => exact absurd rfl hogne
      | cons o os =>
        simp only [List.head?_cons, Option.map_some, Option.some.injEq, Prod.mk.injEq] at oghead this
        simp [setTarget, this, oghead.1]
    · rw [List.getLast?_append]
      cases hLl : L.getLast? with
      | some z =>
        rw [hLl] at hLlast
        simp only [Option.map_some] at hLlast
        cases hfl : gs.flatten.getLast? with
        | none => simp [hfl] at hLlast
        | some w =>
          simp only [List.flatten_cons, List.getLast?_append, hfl]
          simpa [hfl] using hLlast
      | none =>
        rw [hLl] at hLlast
        have hfl : gs.flatten.getLast? = none := by
          cases hfl : gs.flatten.getLast? with
          | none => rfl
          | some w => simp [hfl] at hLlast
        simp only [List.flatten_cons, List.getLast?_append, hfl, Option.none_or]
        rw [last_map_stop (setTarget t) (fun _ => rfl), hp.stop_eq, oglast]
    · intro c hc
      simp only [List.mem_append, List.mem_map] at hc
      rcases hc with ⟨c0, hc0, rfl⟩ | hc
      · refine ⟨by simpa [setTarget] using hp.runs c0 hc0, ?_, ?_⟩
        · simp only [setTarget]; rw [(hp.hdr_fields c0 hc0).2.1, (hh h (by simp)).2]
        · intro hre; simp [setTarget, t, hre]
      · exact hLall c hc
    · intro _ hnil
      have := hp.nonempty
      simp only [List.append_eq_nil_iff, List.map_eq_nil_iff] at hnil
      exact this hnil.1

/-! ### `chunk_number` in the lineage -/

theorem lookup_single (d x : String) (g : List Nat) :
    List.lookup x [(d, g)] = if x = d then some g else none := by
  simp only [List.lookup]
  by_cases h : x = d
  · subst h; simp
  · have : (x == d) = false := by simpa using h
    simp [this, h]

theorem tagDeps_single (d : String) (g : List Nat) (hg : consecutive g = true) :
    ∀ (deps : List String) (acc : List (String × List Nat)), deps.Nodup → acc.lookup d = none →
      tagDeps [(d, g)] deps acc = .ok (if d ∈ deps then acc ++ [(d, g)] else acc) := by
  intro deps
  induction deps with
  | nil => intro acc _ _; rfl
  | cons x xs ih =>
    intro acc hnd hacc
    have hnd' := List.nodup_cons.1 hnd
    simp only [tagDeps, lookup_single]
    by_cases hx : x = d
    · subst hx
      simp only [if_true, hg, Bool.not_true, Bool.false_eq_true, if_false, hacc, Option.isSome_none]
      have hnot : x ∉ xs := hnd'.1
      have : ∀ (ys : List String) (acc' : List (String × List Nat)), x ∉ ys → tagDeps [(x, g)] ys acc' = .ok acc' := by
        intro ys
        induction ys with
        | nil => intro acc' _; rfl
        | cons y ys ih2 =>
          intro acc' hy
          simp only [List.mem_cons, not_or] at hy
          simp only [tagDeps, lookup_single, if_neg (Ne.symm hy.1)]
          exact ih2 acc' hy.2
      rw [this xs _ hnot]
      simp
    · simp only [if_neg hx]
      rw [ih acc hnd'.2 hacc]
      simp [List.mem_cons, Ne.symm hx]

/-- the lineage after `chunk_number = {d: g}` was assigned: every entry whose plugin depends
directly on `d` carries it -/
def tagged (d : String) (g : List Nat) (lin : Lineage) : Lineage :=
  lin.map fun e => if d ∈ e.deps then { e with chunkNumber := [(d, g)] } else e

theorem tagLineage_single (d : String) (g : List Nat) (hg : consecutive g = true) :
    ∀ (lin : Lineage), (∀ e ∈ lin, e.deps.Nodup ∧ e.chunkNumber = []) →
      tagLineage [(d, g)] lin = .ok (tagged d g lin) := by
  intro lin
  induction lin with
  | nil => intro _; rfl
  | cons e es ih =>
    intro h
    have he := h e (by simp)
    have hte : tagEntry [(d, g)] e = .ok (if d ∈ e.deps then { e with chunkNumber := [(d, g)] } else e) := by
      unfold tagEntry
      by_cases hd : d ∈ e.deps
      · have : e.deps.any (fun x => (List.lookup x [(d, g)]).isSome) = true := by
          rw [List.any_eq_true]
          exact ⟨d, hd, by simp⟩
        simp only [this, if_true]
        rw [tagDeps_single d g hg e.deps e.chunkNumber he.1 (by simp [he.2])]
        simp [hd, he.2, bind, Except.bind, pure, Except.pure]
      · have : e.deps.any (fun x => (List.lookup x [(d, g)]).isSome) = false := by
          rw [List.any_eq_false]
          intro x hx
          have : x ≠ d := fun hxd => hd (hxd ▸ hx)
          simp [lookup_single, this]
        simp [this, hd, pure, Except.pure]
    simp only [tagLineage, hte, ih (fun x hx => h x (by simp [hx])), bind, Except.bind, pure, Except.pure, tagged,
      List.map_cons]

theorem tagged_inj (d : String) (g1 g2 : List Nat) (lin : Lineage) (hdep : ∃ e ∈ lin, d ∈ e.deps)
    (h : tagged d g1 lin = tagged d g2 lin) : g1 = g2 := by
  obtain ⟨e, he, hd⟩ := hdep
  induction lin with
  | nil => simp at he
  | cons x xs ih =>
    simp only [tagged, List.map_cons, List.cons.injEq] at h
    simp only [List.mem_cons] at he
    rcases he with rfl | he
    · have := h.1
      simp only [hd, if_true, Entry.mk.injEq] at this
      simpa using this.2.2.2
    · exact ih h.2 he

theorem tagged_ne (d : String) (g : List Nat) (lin : Lineage) (hdep : ∃ e ∈ lin, d ∈ e.deps)
    (hun : ∀ e ∈ lin, e.chunkNumber = []) : tagged d g lin ≠ lin := by
  obtain ⟨e, he, hd⟩ := hdep
  induction lin with
  | nil => simp at he
  | cons x xs ih =>
    intro h
    simp only [tagged, List.map_cons, List.cons.injEq] at h
    simp only [List.mem_cons] at he
    rcases he with rfl | he
    · have h1 := h.1
      simp only [hd, if_true] at h1
      have := congrArg Entry.chunkNumber h1
      simp [hun e (by simp)] at this
    · exact ih (fun y hy => hun y (by simp [hy])) he h.2

theorem tagged_of_no_dependent (d : String) (g : List Nat) (lin : Lineage) (h : ∀ e ∈ lin, d ∉ e.deps) :
    tagged d g lin = lin := by
  induction lin with
  | nil => rfl
  | cons x xs ih =>
    simp only [tagged, List.map_cons, h x (by simp), if_false]
    congr 1
    exact ih (fun e he => h e (by simp [he]))


/-! ### metadata agrees with the files -/

/-- the agreement between metadata and files that `Strax.C03.meta_consistent` establishes for the
list `out` of chunks actually written -/
def MetaConsistent (hdr : Header) (md : Meta) (files : Files) (out : List Chunk) : Prop :=
  md.chunks.length = out.length ∧
  (∀ (k : Nat) (c : Chunk), out[k]? = some c → ∃ info : ChunkInfo, md.chunks[k]? = some info ∧
      info.i = k ∧ info.n = c.rows.length ∧ info.start = c.start ∧ info.stop = c.stop ∧
      info.runId = c.runId ∧ info.subruns = c.subruns ∧
      info.firstTime = c.rows.head?.map (·.time) ∧ info.firstEnd = c.rows.head?.map (·.endt) ∧
      info.lastTime = c.rows.getLast?.map (·.time) ∧ info.lastEnd = c.rows.getLast?.map (·.endt) ∧
      (c.rows = [] → info.filename = none) ∧
      (c.rows ≠ [] → ∃ fn, info.filename = some fn ∧ readFile files fn = some c.rows)) ∧
  (∀ p ∈ files, ∃ info ∈ md.chunks, info.filename = some p.1 ∧ info.n = p.2.length ∧ info.n ≠ 0) ∧
  md.start = out.head?.map (·.start) ∧ md.stop = out.getLast?.map (·.stop) ∧
  md.writingEnded = true ∧ md.exception = false ∧ md.hdr = hdr

theorem metaConsistent_of_save (a0 : Int) (re : Bool) (hdr : Header) (s : List Chunk) (md : Meta) (files : Files)
    (h : saveAll a0 re hdr s = .ok (md, files)) :
    ∃ out, rechunkAll a0 ⟨re, hdr.runId.startsWith "_", none⟩ s = .ok out ∧ (re = false → out = s) ∧
      MetaConsistent hdr md files out :=
  Strax.C03.meta_consistent a0 re hdr s md files h

theorem boundaryRuleB_congr {a b n : List Chunk} (h1 : boundaries a = boundaries b) (h2 : rows a = rows b) :
    boundaryRuleB a n = boundaryRuleB b n := by
  unfold boundaryRuleB
  rw [h1]
  simp only [rows] at h2
  rw [h2]

theorem boundaries_map (g : Chunk → Chunk) (hst : ∀ c, (g c).start = c.start) (hsp : ∀ c, (g c).stop = c.stop)
    (s : List Chunk) : boundaries (s.map g) = boundaries s := by
  unfold boundaries
  rw [List.getLast?_map, List.map_map]
  have h1 : (fun c : Chunk => c.start) ∘ g = fun c => c.start := by funext c; simp [hst]
  rw [h1]
  cases s.getLast? <;> simp [hsp]


/-! ### the key of the merged data for a proper grouping -/

theorem hasDup_false_of_nodup : ∀ (l : List Nat), l.Nodup → hasDup l = false := by
  intro l
  induction l with
  | nil => intro _; rfl
  | cons a as ih =>
    intro h
    have h' := List.nodup_cons.1 h
    simp only [hasDup, Bool.or_eq_false_iff]
    exact ⟨by simpa using h'.1, ih h'.2⟩

theorem foldl_max_spec : ∀ (l : List Nat) (a : Nat),
    (l.foldl max a = a ∨ l.foldl max a ∈ l) ∧ a ≤ l.foldl max a ∧ ∀ x ∈ l, x ≤ l.foldl max a := by
  intro l
  induction l with
  | nil => intro a; simp
  | cons b bs ih =>
    intro a
    obtain ⟨h1, h2, h3⟩ := ih (max a b)
    simp only [List.foldl_cons, List.mem_cons]
    refine ⟨?_, by omega, ?_⟩
    · rcases h1 with h1 | h1
      · rw [h1]
        by_cases hab : a ≤ b
        · right; left; omega
        · left; omega
      · right; right; exact h1
    · intro x hx
      rcases hx with rfl | hx
      · omega
      · exact h3 x hx

theorem foldl_min_zero : ∀ (l : List Nat), l.foldl min 0 = 0 := by
  intro l
  induction l with
  | nil => rfl
  | cons b bs ih => simp only [List.foldl_cons, Nat.zero_min]; exact ih

/-- a grouping whose chunk numbers, read in order, are `0, 1, …, n-1` (a partition of all chunks of the
dependency into consecutive jobs, in order) is stored under the plain key of the target -/
theorem mergeChunkNumber_partition (n : Nat) (groups : List (List Nat)) (hn : 1 ≤ n)
    (h : groups.flatten = List.range n) : mergeChunkNumber n groups = .ok none := by
  unfold mergeChunkNumber
  simp only [h, hasDup_false_of_nodup _ List.nodup_range, Bool.false_eq_true, if_false]
  obtain ⟨m, rfl⟩ : ∃ m, n = m + 1 := ⟨n - 1, by omega⟩
  have hr : List.range (m + 1) = 0 :: (List.range m).map Nat.succ := List.range_succ_eq_map
  have hmin : listMin (List.range (m + 1)) = some 0 := by
    rw [hr]; simp only [listMin, foldl_min_zero]
  have hmax : listMax (List.range (m + 1)) = some m := by
    rw [hr]
    simp only [listMax]
    obtain ⟨h1, _, h3⟩ := foldl_max_spec ((List.range m).map Nat.succ) 0
    congr 1
    have hle : List.foldl max 0 ((List.range m).map Nat.succ) ≤ m := by
      rcases h1 with h1 | h1
      · omega
      · simp only [List.mem_map, List.mem_range] at h1
        obtain ⟨k, hk, hk'⟩ := h1
        omega
    cases m with
    | zero => omega
    | succ k =>
      have := h3 (k + 1) (by simp only [List.mem_map, List.mem_range]; exact ⟨k, by omega, rfl⟩)
      omega
  simp [hmin, hmax, pure, Except.pure]

end Strax.Copy
