import StraxModel.Lemmas.ChunkAlgSplit
import StraxModel.Lemmas.SuperrunBad
/-
  Helper lemmas for property C07, part 2: `Chunk.__init__`, `split`, `concatenate`, `merge`.
-/
namespace Strax

/-! ### `Except` plumbing -/

theorem bind_eq_ok {ε α β} {x : Except ε α} {f : α → Except ε β} {b : β} :
    (x >>= f) = .ok b ↔ ∃ a, x = .ok a ∧ f a = .ok b := by
  cases x <;> simp [bind, Except.bind]

theorem bind_eq_error {ε α β} {x : Except ε α} {f : α → Except ε β} {e : ε} :
    (x >>= f) = .error e ↔ x = .error e ∨ ∃ a, x = .ok a ∧ f a = .error e := by
  cases x <;> simp [bind, Except.bind]

/-! ### `mkChunk` (`Chunk.__init__`) as a cascade of checks -/

def mkStage4 (dt k : String) (rid : Option String) (s e : Int) (rows : List Row) (tg : Nat)
    (subruns : Option Runs) (x : Runs) : Except Err Chunk :=
  if x.isEmpty then .error .valueError
  else if x.length == 1 && rid.isNone then .error .valueError
  else if runsOverlap (sortRuns x) then .error .valueError
  else .ok ⟨dt, k, rid, s, e, rows, subruns, sortRuns x, tg⟩

def mkStage3 (dt k : String) (rid : Option String) (s e : Int) (rows : List Row) (tg : Nat)
    (sup : Option Runs) (subruns : Option Runs) : Except Err Chunk :=
  match sup with
  | none =>
    match rid with
    | some r => mkStage4 dt k rid s e rows tg subruns [Run.mk r s e]
    | none => .error .valueError
  | some x => mkStage4 dt k rid s e rows tg subruns x

def mkStage2 (dt k : String) (rid : Option String) (s e : Int) (rows : List Row) (tg : Nat)
    (sup : Option Runs) (subruns : Option Runs) : Except Err Chunk :=
  if s < 0 then .error .valueError
  else if s > e then .error .valueError
  else
    match rows with
    | [] => mkStage3 dt k rid s e rows tg sup subruns
    | r0 :: _ =>
      if r0.time < s then .error .valueError
      else
        match lastEndMax rows with
        | some m => if m > e then .error .valueError else mkStage3 dt k rid s e rows tg sup subruns
        | none => mkStage3 dt k rid s e rows tg sup subruns

set_option maxRecDepth 8192 in
theorem mkChunk_eq (dt k : String) (rid : Option String) (s e : Int) (rows : List Row)
    (sub sup : Option Runs) (tg : Nat) :
    mkChunk dt k rid s e rows sub sup tg =
      match sub with
      | none => mkStage2 dt k rid s e rows tg sup none
      | some x =>
        if runsOverlap (sortRuns x) then .error .valueError
        else mkStage2 dt k rid s e rows tg sup (some (sortRuns x)) := by
  cases sub <;> cases rows <;> cases sup <;> cases rid <;> rfl

theorem mkStage4_ok {dt k rid s e rows tg subruns x c}
    (h : mkStage4 dt k rid s e rows tg subruns x = .ok c) :
    c = ⟨dt, k, rid, s, e, rows, subruns, sortRuns x, tg⟩ := by
  unfold mkStage4 at h
  split at h; · simp at h
  split at h; · simp at h
  split at h; · simp at h
  simp at h; exact h.symm

theorem mkStage3_ok {dt k rid s e rows tg sup subruns c}
    (h : mkStage3 dt k rid s e rows tg sup subruns = .ok c) :
    ∃ x, c = ⟨dt, k, rid, s, e, rows, subruns, x, tg⟩ := by
  unfold mkStage3 at h
  split at h
  · split at h
    · exact ⟨_, mkStage4_ok h⟩
    · simp at h
  · exact ⟨_, mkStage4_ok h⟩

theorem mkStage2_ok {dt k rid s e rows tg sup subruns c}
    (h : mkStage2 dt k rid s e rows tg sup subruns = .ok c) :
    (∃ x, c = ⟨dt, k, rid, s, e, rows, subruns, x, tg⟩) ∧ 0 ≤ s ∧ s ≤ e ∧
      (∀ r0, rows.head? = some r0 → s ≤ r0.time) := by
  unfold mkStage2 at h
  split at h; · simp at h
  split at h; · simp at h
  split at h
  · exact ⟨mkStage3_ok h, by omega, by omega, by simp⟩
  · rename_i r0 tl
    split at h; · simp at h
    have hh : ∀ r0', (List.head? (r0 :: tl) : Option Row) = some r0' → s ≤ r0'.time := by
      intro r0' h'; simp at h'; subst h'; omega
    split at h
    · split at h; · simp at h
      exact ⟨mkStage3_ok h, by omega, by omega, hh⟩
    · exact ⟨mkStage3_ok h, by omega, by omega, hh⟩

/-- what a successful constructor call tells us -/
theorem mkChunk_fields {dt k : String} {rid : Option String} {s e : Int} {rows : List Row}
    {sub sup : Option Runs} {tg : Nat} {c : Chunk}
    (h : mkChunk dt k rid s e rows sub sup tg = .ok c) :
    c.dataType = dt ∧ c.kind = k ∧ c.runId = rid ∧ c.start = s ∧ c.stop = e ∧ c.rows = rows ∧
    c.target = tg ∧ 0 ≤ s ∧ s ≤ e ∧ (∀ r0, rows.head? = some r0 → s ≤ r0.time) := by
  rw [mkChunk_eq] at h
  split at h
  · obtain ⟨⟨x, rfl⟩, h1, h2, h3⟩ := mkStage2_ok h
    exact ⟨rfl, rfl, rfl, rfl, rfl, rfl, rfl, h1, h2, h3⟩
  · split at h; · simp at h
    obtain ⟨⟨x, rfl⟩, h1, h2, h3⟩ := mkStage2_ok h
    exact ⟨rfl, rfl, rfl, rfl, rfl, rfl, rfl, h1, h2, h3⟩

/-- the constructor only ever raises `ValueError` -/
theorem mkChunk_error {dt k : String} {rid : Option String} {s e : Int} {rows : List Row}
    {sub sup : Option Runs} {tg : Nat} {er : Err}
    (h : mkChunk dt k rid s e rows sub sup tg = .error er) : er = .valueError := by
  rw [mkChunk_eq] at h
  unfold mkStage2 mkStage3 mkStage4 at h
  repeat' split at h
  all_goals first | (simp at h; exact h.symm) | (simp at h)

theorem lastEndMax_le {rows : List Row} {B : Int} (h : ∀ x ∈ rows, x.endt ≤ B) :
    ∀ m, lastEndMax rows = some m → m ≤ B := by
  intro m hm
  unfold lastEndMax at hm
  split at hm
  · simp at hm
  · rename_i r rs heq
    simp at hm
    subst hm
    have hsub : ∀ x ∈ r :: rs, x ∈ rows := by
      intro x hx
      rw [← heq] at hx
      exact List.mem_of_mem_drop hx
    apply maxEnd_le
    · exact h r (hsub r (by simp))
    · intro x hx; exact h x (hsub x (by simp [hx]))

theorem sortRuns_singleton (r : Run) : sortRuns [r] = [r] := by
  simp [sortRuns]

/-- success of the constructor for a chunk without run annotations -/
theorem mkChunk_plain {dt k rid : String} {s e : Int} {rows : List Row} {tg : Nat} {sup : Option Runs}
    (h0 : 0 ≤ s) (h1 : s ≤ e) (hin : ∀ x ∈ rows, s ≤ x.time ∧ x.endt ≤ e)
    (hsup : sup = none ∨ sup = some [⟨rid, s, e⟩]) :
    mkChunk dt k (some rid) s e rows none sup tg = .ok ⟨dt, k, some rid, s, e, rows, none, [⟨rid, s, e⟩], tg⟩ := by
  rw [mkChunk_eq]
  have h3 : mkStage3 dt k (some rid) s e rows tg sup none
      = .ok ⟨dt, k, some rid, s, e, rows, none, [⟨rid, s, e⟩], tg⟩ := by
    rcases hsup with rfl | rfl <;> simp [mkStage3, mkStage4, sortRuns_singleton, runsOverlap]
  simp only [mkStage2]
  have hs0 : ¬ s < 0 := by omega
  have hse : ¬ s > e := by omega
  simp only [hs0, hse, if_false]
  cases rows with
  | nil => exact h3
  | cons r0 tl =>
    have hr0 := hin r0 (by simp)
    have : ¬ r0.time < s := by omega
    simp only [this, if_false]
    have hle := lastEndMax_le (B := e) (fun x hx => (hin x hx).2)
    split
    · rename_i m hm
      have := hle m hm
      have : ¬ m > e := by omega
      simp only [this, if_false]
      exact h3
    · exact h3

/-! ### `Chunk.split` -/

/-- first stage of `Chunk.split`: clamp `t`, treat the edges, otherwise `split_array` -/
def splitData (c : Chunk) (t : Int) (early : Bool) : Except Err (List Row × List Row × Int) :=
  if max (min t c.stop) c.start = c.stop then pure (c.rows, [], max (min t c.stop) c.start)
  else if max (min t c.stop) c.start = c.start then pure ([], c.rows, max (min t c.stop) c.start)
  else splitArray c.rows (max (min t c.stop) c.start) early

def splitSub (c : Chunk) (t : Int) : Option Runs × Option Runs :=
  if c.promisedContinuity then splitRuns c.subruns t else (c.subruns, c.subruns)

def runSingle (s : Option Runs) : Bool := match s with
    | none => true
    | some l => l.length == 1

def splitRun1 (c : Chunk) (t : Int) : Option String :=
  if runSingle (splitRuns (some c.superrun) t).1 then c.superrun.head?.map (·.id) else c.runId
def splitRun2 (c : Chunk) (t : Int) : Option String :=
  if runSingle (splitRuns (some c.superrun) t).2 then c.superrun.getLast?.map (·.id) else c.runId

theorem Chunk.splitCore_eq (c : Chunk) (t : Int) (early : Bool) :
    c.splitCore t early =
      splitData c t early >>= fun v =>
        mkChunk c.dataType c.kind (splitRun1 c v.2.2) c.start (max c.start v.2.2) v.1 (splitSub c v.2.2).1
            (splitRuns (some c.superrun) v.2.2).1 c.target >>= fun c1 =>
        mkChunk c.dataType c.kind (splitRun2 c v.2.2) (max c.start v.2.2) (max v.2.2 c.stop) v.2.1
            (splitSub c v.2.2).2 (splitRuns (some c.superrun) v.2.2).2 c.target >>= fun c2 =>
        pure (c1, c2) := by
  unfold Chunk.splitCore splitData
  simp only [bind, Except.bind, pure, Except.pure, splitRun1, splitRun2, splitSub, runSingle]
  split
  · rfl
  · split
    · rfl
    · cases splitArray c.rows (max (min t c.stop) c.start) early <;> rfl

/-- the former unconditional `Chunk.split_eq`, now for chunks on which `is_superrun` does not raise -/
theorem Chunk.split_eq {c : Chunk} (hbad : c.isSuperrunBad = false) (t : Int) (early : Bool) :
    c.split t early =
      splitData c t early >>= fun v =>
        mkChunk c.dataType c.kind (splitRun1 c v.2.2) c.start (max c.start v.2.2) v.1 (splitSub c v.2.2).1
            (splitRuns (some c.superrun) v.2.2).1 c.target >>= fun c1 =>
        mkChunk c.dataType c.kind (splitRun2 c v.2.2) (max c.start v.2.2) (max v.2.2 c.stop) v.2.1
            (splitSub c v.2.2).2 (splitRuns (some c.superrun) v.2.2).2 c.target >>= fun c2 =>
        pure (c1, c2) := by
  rw [Chunk.split_of_not_bad hbad, Chunk.splitCore_eq]

/-- inversion of a successful `Chunk.split` -/
theorem Chunk.split_ok_inv {c : Chunk} {t : Int} {early : Bool} {c1 c2 : Chunk}
    (h : c.split t early = .ok (c1, c2)) :
    ∃ d1 d2 t', splitData c t early = .ok (d1, d2, t') ∧
      mkChunk c.dataType c.kind (splitRun1 c t') c.start (max c.start t') d1 (splitSub c t').1
            (splitRuns (some c.superrun) t').1 c.target = .ok c1 ∧
      mkChunk c.dataType c.kind (splitRun2 c t') (max c.start t') (max t' c.stop) d2
            (splitSub c t').2 (splitRuns (some c.superrun) t').2 c.target = .ok c2 := by
  have h := (Chunk.split_ok_core h).2
  rw [Chunk.splitCore_eq] at h
  obtain ⟨⟨d1, d2, t'⟩, hv, h⟩ := bind_eq_ok.1 h
  obtain ⟨c1', h1, h⟩ := bind_eq_ok.1 h
  obtain ⟨c2', h2, h⟩ := bind_eq_ok.1 h
  simp [pure, Except.pure] at h
  obtain ⟨rfl, rfl⟩ := h
  exact ⟨d1, d2, t', hv, h1, h2⟩

theorem splitData_ok {c : Chunk} {t : Int} {early : Bool} {d1 d2 : List Row} {t' : Int}
    (hse : c.start ≤ c.stop) (h : splitData c t early = .ok (d1, d2, t')) :
    d1 ++ d2 = c.rows ∧ t' ≤ c.stop ∧
    ((d1 = c.rows ∧ d2 = [] ∧ t' = c.stop) ∨ (d1 = [] ∧ d2 = c.rows ∧ t' = c.start) ∨
     (c.start < t ∧ t < c.stop ∧ splitArray c.rows t early = .ok (d1, d2, t'))) := by
  unfold splitData at h
  split at h
  · simp [pure, Except.pure] at h
    obtain ⟨rfl, rfl, rfl⟩ := h
    simp; omega
  · split at h
    · simp [pure, Except.pure] at h
      obtain ⟨rfl, rfl, rfl⟩ := h
      simp; omega
    · have ht : max (min t c.stop) c.start = t := by omega
      rw [ht] at h
      have := splitArray_append h
      have := splitArray_time_le h
      exact ⟨by assumption, by omega, Or.inr (Or.inr ⟨by omega, by omega, h⟩)⟩

/-- `splitData` fails only through `split_array` at an interior `t` -/
theorem splitData_error {c : Chunk} {t : Int} {early : Bool} {e : Err}
    (h : splitData c t early = .error e) :
    c.start < t ∧ t < c.stop ∧ splitArray c.rows t early = .error e := by
  unfold splitData at h
  split at h
  · simp [pure, Except.pure] at h
  · split at h
    · simp [pure, Except.pure] at h
    · have ht : max (min t c.stop) c.start = t := by omega
      rw [ht] at h
      exact ⟨by omega, by omega, h⟩

theorem splitData_interior {c : Chunk} {t : Int} {early : Bool} (h1 : c.start < t) (h2 : t < c.stop) :
    splitData c t early = splitArray c.rows t early := by
  unfold splitData
  have ht : max (min t c.stop) c.start = t := by omega
  rw [ht]
  have : ¬ t = c.stop := by omega
  have : ¬ t = c.start := by omega
  simp [*]

/-- rows inside the chunk's range, sorted, positive, range sane -/
def Chunk.wf (c : Chunk) : Bool :=
  decide (0 ≤ c.start) && decide (c.start ≤ c.stop) && sortedByTimeB c.rows && positiveRowsB c.rows &&
    c.rows.all (fun r => decide (c.start ≤ r.time) && decide (r.endt ≤ c.stop))

theorem Chunk.wf_iff (c : Chunk) : c.wf = true ↔
    0 ≤ c.start ∧ c.start ≤ c.stop ∧ SortedByTime c.rows ∧ PositiveRows c.rows ∧
      ∀ r ∈ c.rows, c.start ≤ r.time ∧ r.endt ≤ c.stop := by
  simp [Chunk.wf, sortedByTimeB_iff, positiveRowsB_iff, and_assoc]

theorem split_conserves' {c : Chunk} {t : Int} {early : Bool} {c1 c2 : Chunk}
    (hse : c.start ≤ c.stop) (h : c.split t early = .ok (c1, c2)) :
    c1.rows ++ c2.rows = c.rows ∧ c1.start = c.start ∧ c1.stop = c2.start ∧ c2.stop = c.stop := by
  obtain ⟨d1, d2, t', hv, h1, h2⟩ := Chunk.split_ok_inv h
  obtain ⟨ha, hb, -⟩ := splitData_ok hse hv
  have f1 := mkChunk_fields h1
  have f2 := mkChunk_fields h2
  obtain ⟨-, -, -, f1s, f1e, f1r, -⟩ := f1
  obtain ⟨-, -, -, f2s, f2e, f2r, -⟩ := f2
  refine ⟨by rw [f1r, f2r, ha], f1s, by rw [f1e, f2s], by rw [f2e]; omega⟩

theorem split_separates' {c : Chunk} {t : Int} {early : Bool} {c1 c2 : Chunk}
    (hse : c.start ≤ c.stop) (hs : SortedByTime c.rows) (hin : ∀ x ∈ c.rows, x.endt ≤ c.stop)
    (h : c.split t early = .ok (c1, c2)) :
    (∀ x ∈ c1.rows, x.endt ≤ c1.stop) ∧ (∀ x ∈ c2.rows, c2.start ≤ x.time) := by
  obtain ⟨d1, d2, t', hv, h1, h2⟩ := Chunk.split_ok_inv h
  obtain ⟨ha, hb, hcase⟩ := splitData_ok hse hv
  obtain ⟨-, -, -, f1s, f1e, f1r, -⟩ := mkChunk_fields h1
  obtain ⟨-, -, -, f2s, f2e, f2r, -, -, -, f2h⟩ := mkChunk_fields h2
  rw [f1r, f1e, f2r, f2s]
  constructor
  · rcases hcase with ⟨rfl, -, rfl⟩ | ⟨rfl, -, -⟩ | ⟨-, -, hsa⟩
    · intro x hx; have := hin x hx; omega
    · simp
    · intro x hx
      have := (splitArray_sep hs hsa).1 x hx
      omega
  · have hs2 : SortedByTime d2 := by rw [← ha] at hs; exact hs.append_right
    intro x hx
    cases d2 with
    | nil => simp at hx
    | cons y ys =>
      have hy := f2h y (by simp)
      simp at hx
      rcases hx with rfl | hx
      · exact hy
      · have := hs2.head_le x hx; omega

theorem split_refuses_iff' {c : Chunk} {t : Int} (hwf : c.wf = true) :
    c.split t false = .error .cannotSplit ↔ ∃ r ∈ c.rows, r.straddles t := by
  obtain ⟨h0, hse, hs, hpos, hin⟩ := (Chunk.wf_iff c).1 hwf
  have hnn : ∀ r ∈ c.rows, 0 ≤ r.time := by intro r hr; have := hin r hr; omega
  rw [Chunk.split_cannotSplit_iff]
  constructor
  · intro h
    rw [Chunk.splitCore_eq] at h
    rcases bind_eq_error.1 h with hv | ⟨v, -, h⟩
    · obtain ⟨-, -, hsa⟩ := splitData_error hv
      exact straddler_of_splitArray_refuses hnn hsa
    · rcases bind_eq_error.1 h with h1 | ⟨c1, -, h⟩
      · have := mkChunk_error h1; cases this
      · rcases bind_eq_error.1 h with h2 | ⟨c2, -, h⟩
        · have := mkChunk_error h2; cases this
        · simp [pure, Except.pure] at h
  · rintro ⟨r, hr, hst⟩
    have hri := hin r hr
    unfold Row.straddles at hst
    have hsa := splitArray_refuses_of_straddler hs ⟨r, hr, hst⟩
    rw [Chunk.splitCore_eq, splitData_interior (by omega) (by omega), hsa]
    rfl

/-! ### chunks without run annotations -/

/-- no sub-run annotation and the default super-run entry `{run_id: [start, end]}` -/
def Chunk.simple (c : Chunk) : Bool :=
  c.subruns.isNone &&
    (match c.runId with
     | some rid => c.superrun == [⟨rid, c.start, c.stop⟩]
     | none => false)

theorem Chunk.simple_iff (c : Chunk) : c.simple = true ↔
    c.subruns = none ∧ ∃ rid, c.runId = some rid ∧ c.superrun = [⟨rid, c.start, c.stop⟩] := by
  unfold Chunk.simple
  cases h : c.runId <;> simp [Option.isNone_iff_eq_none]

def Chunk.good (c : Chunk) : Bool := c.wf && c.simple

theorem popEmpty_single (r : Run) : popEmpty [r] = if r.start = r.stop then none else some [r] := by
  unfold popEmpty
  by_cases h : r.start = r.stop
  · have : (r.start != r.stop) = false := by simp [h]
    simp [List.filter, this, h]
  · have : (r.start != r.stop) = true := by simp [h]
    simp [List.filter, this, h]

theorem popEmpty_nil : popEmpty [] = none := rfl

theorem splitRuns_single (rid : String) (s e t : Int) (h1 : s ≤ t) (h2 : t ≤ e) :
    ((splitRuns (some [⟨rid, s, e⟩]) t).1 = none ∨ (splitRuns (some [⟨rid, s, e⟩]) t).1 = some [⟨rid, s, t⟩]) ∧
    ((splitRuns (some [⟨rid, s, e⟩]) t).2 = none ∨ (splitRuns (some [⟨rid, s, e⟩]) t).2 = some [⟨rid, t, e⟩]) := by
  simp only [splitRuns, splitRunsList]
  by_cases ha : t ≤ s
  · have : t = s := by omega
    subst this
    simp only [ha, if_true, popEmpty_nil, popEmpty_single]
    by_cases hb : t = e <;> simp [hb]
  · simp only [ha, if_false]
    by_cases hb : t < e
    · simp only [hb, if_true, popEmpty_single]
      have : ¬ s = t := by omega
      have : ¬ t = e := by omega
      simp [*]
    · have : t = e := by omega
      subst this
      simp only [hb, if_false, popEmpty_nil, popEmpty_single]
      have : ¬ s = t := by omega
      simp [*]

theorem runSingle_of {x : Option Runs} {r : Run} (h : x = none ∨ x = some [r]) : runSingle x = true := by
  rcases h with rfl | rfl <;> simp [runSingle]

theorem promised_of_subruns_none {c : Chunk} (h : c.subruns = none) : c.promisedContinuity = true := by
  simp [Chunk.promisedContinuity, Chunk.isSuperrun, h]

/-- explicit result of `split` on an un-annotated chunk, given the row split -/
theorem split_simple_ok {c : Chunk} {rid : String} {t : Int} {early : Bool} {d1 d2 : List Row} {t' : Int}
    (hsub : c.subruns = none) (hsup : c.superrun = [⟨rid, c.start, c.stop⟩])
    (h0 : 0 ≤ c.start) (hst : c.start ≤ t') (hts : t' ≤ c.stop)
    (hin1 : ∀ x ∈ d1, c.start ≤ x.time ∧ x.endt ≤ t') (hin2 : ∀ x ∈ d2, t' ≤ x.time ∧ x.endt ≤ c.stop)
    (hv : splitData c t early = .ok (d1, d2, t')) :
    c.split t early = .ok
      (⟨c.dataType, c.kind, some rid, c.start, t', d1, none, [⟨rid, c.start, t'⟩], c.target⟩,
       ⟨c.dataType, c.kind, some rid, t', c.stop, d2, none, [⟨rid, t', c.stop⟩], c.target⟩) := by
  have hsr := splitRuns_single rid c.start c.stop t' hst hts
  have hm1 : max c.start t' = t' := by omega
  have hm2 : max t' c.stop = c.stop := by omega
  have hr1 : splitRun1 c t' = some rid := by
    unfold splitRun1; rw [hsup, runSingle_of hsr.1]; rfl
  have hr2 : splitRun2 c t' = some rid := by
    unfold splitRun2; rw [hsup, runSingle_of hsr.2]; rfl
  have hss : splitSub c t' = (none, none) := by
    unfold splitSub; rw [promised_of_subruns_none hsub, hsub]; rfl
  rw [Chunk.split_of_not_bad (Chunk.not_bad_of_subruns_none hsub), Chunk.splitCore_eq, hv]
  simp only [bind, Except.bind, hr1, hr2, hss, hm1, hm2, hsup]
  rw [mkChunk_plain h0 hst hin1 hsr.1]
  simp only
  rw [mkChunk_plain (by omega) hts hin2 hsr.2]
  rfl

theorem splitData_time_le {c : Chunk} {t : Int} {early : Bool} {d1 d2 : List Row} {t' : Int}
    (hv : splitData c t early = .ok (d1, d2, t')) : t' ≤ max (min t c.stop) c.start := by
  unfold splitData at hv
  split at hv
  · simp [pure, Except.pure] at hv; omega
  · split at hv
    · simp [pure, Except.pure] at hv; omega
    · exact splitArray_time_le hv

theorem splitData_wf {c : Chunk} {t : Int} {early : Bool} {d1 d2 : List Row} {t' : Int}
    (hwf : c.wf = true) (hv : splitData c t early = .ok (d1, d2, t')) :
    d1 ++ d2 = c.rows ∧ c.start ≤ t' ∧ t' ≤ c.stop ∧ (∀ x ∈ d1, x.endt ≤ t') ∧ (∀ x ∈ d2, t' ≤ x.time) := by
  obtain ⟨h0, hse, hs, hpos, hin⟩ := (Chunk.wf_iff c).1 hwf
  obtain ⟨ha, hb, hcase⟩ := splitData_ok hse hv
  refine ⟨ha, ?_, hb, ?_⟩
  · rcases hcase with ⟨-, -, rfl⟩ | ⟨-, -, rfl⟩ | ⟨h1, h2, hsa⟩
    · exact hse
    · omega
    · rcases splitArray_time_cases hsa with rfl | ⟨x, hx, rfl⟩
      · omega
      · exact (hin x hx).1
  · rcases hcase with ⟨rfl, rfl, rfl⟩ | ⟨rfl, rfl, rfl⟩ | ⟨h1, h2, hsa⟩
    · exact ⟨fun x hx => (hin x hx).2, by simp⟩
    · exact ⟨by simp, fun x hx => (hin x hx).1⟩
    · exact splitArray_sep hs hsa

theorem PositiveRows.of_append {a b : List Row} (h : PositiveRows (a ++ b)) : PositiveRows a ∧ PositiveRows b := by
  unfold PositiveRows at *
  exact ⟨fun r hr => h r (by simp [hr]), fun r hr => h r (by simp [hr])⟩

/-- `split` of a good chunk, if it succeeds, yields two good adjacent chunks with explicit fields -/
theorem split_good {c : Chunk} {t : Int} {early : Bool} {c1 c2 : Chunk}
    (hg : c.good = true) (h : c.split t early = .ok (c1, c2)) :
    ∃ rid t', c.runId = some rid ∧ c.start ≤ t' ∧ t' ≤ c.stop ∧ t' ≤ max t c.start ∧
      c1 = ⟨c.dataType, c.kind, some rid, c.start, t', c1.rows, none, [⟨rid, c.start, t'⟩], c.target⟩ ∧
      c2 = ⟨c.dataType, c.kind, some rid, t', c.stop, c2.rows, none, [⟨rid, t', c.stop⟩], c.target⟩ ∧
      c1.rows ++ c2.rows = c.rows ∧ (∀ x ∈ c1.rows, x.endt ≤ t') ∧ (∀ x ∈ c2.rows, t' ≤ x.time) ∧
      c1.good = true ∧ c2.good = true := by
  simp only [Chunk.good, Bool.and_eq_true] at hg
  obtain ⟨hwf, hsimple⟩ := hg
  obtain ⟨hsub, rid, hrid, hsup⟩ := (Chunk.simple_iff c).1 hsimple
  obtain ⟨h0, hse, hs, hpos, hin⟩ := (Chunk.wf_iff c).1 hwf
  obtain ⟨d1, d2, t', hv, -, -⟩ := Chunk.split_ok_inv h
  obtain ⟨ha, hst, hts, hl, hr⟩ := splitData_wf hwf hv
  have hin1 : ∀ x ∈ d1, c.start ≤ x.time ∧ x.endt ≤ t' :=
    fun x hx => ⟨(hin x (by rw [← ha]; simp [hx])).1, hl x hx⟩
  have hin2 : ∀ x ∈ d2, t' ≤ x.time ∧ x.endt ≤ c.stop :=
    fun x hx => ⟨hr x hx, (hin x (by rw [← ha]; simp [hx])).2⟩
  have hres := split_simple_ok hsub hsup h0 hst hts hin1 hin2 hv
  rw [h] at hres
  simp only [Except.ok.injEq, Prod.mk.injEq] at hres
  obtain ⟨rfl, rfl⟩ := hres
  have htle : t' ≤ max t c.start := by
    obtain ⟨-, -, hcase⟩ := splitData_ok hse hv
    rcases hcase with ⟨-, -, rfl⟩ | ⟨-, -, rfl⟩ | ⟨h1, h2, hsa⟩
    · have := splitData_time_le hv; omega
    · omega
    · have := splitArray_time_le hsa; omega
  rw [← ha] at hs hpos
  refine ⟨rid, t', hrid, hst, hts, htle, rfl, rfl, ha, hl, hr, ?_, ?_⟩
  · simp only [Chunk.good, Bool.and_eq_true]
    refine ⟨(Chunk.wf_iff _).2 ⟨h0, hst, hs.append_left, hpos.of_append.1, hin1⟩, (Chunk.simple_iff _).2 ⟨rfl, rid, rfl, rfl⟩⟩
  · simp only [Chunk.good, Bool.and_eq_true]
    refine ⟨(Chunk.wf_iff _).2 ⟨(show (0:Int) ≤ t' by omega), hts, hs.append_right, hpos.of_append.2, hin2⟩, (Chunk.simple_iff _).2 ⟨rfl, rid, rfl, rfl⟩⟩

/-! ### `concatenate` -/

def concatRun (cs : List Chunk) (c0 : Chunk) : Except Err (Option String × Option Runs) :=
  if allEq (cs.map (·.runId)) then pure (c0.runId, none)
  else mergeSuperrun cs false >>= fun s => pure (none, some s)

def concatSub (cs : List Chunk) : Except Err (Option Runs) :=
  match mergeSubruns cs false with
  | .ok s => pure s
  | .error _ => mergeSubruns cs true

theorem concatenate_eq (c0 c1 : Chunk) (rest : List Chunk) (a : Bool) :
    concatenate (c0 :: c1 :: rest) a =
      if !allEq ((c0 :: c1 :: rest).map (·.dataType)) then .error .valueError
      else if !allEq ((c0 :: c1 :: rest).map (·.runId)) && !a then .error .valueError
      else concatRun (c0 :: c1 :: rest) c0 >>= fun p =>
        concatSub (c0 :: c1 :: rest) >>= fun subruns =>
        if outOfOrder 0 (c0 :: c1 :: rest) then .error .valueError
        else mkChunk c0.dataType c0.kind p.1 c0.start (((c0 :: c1 :: rest).getLast?.getD c0).stop)
          ((c0 :: c1 :: rest).flatMap (·.rows)) subruns p.2 (((c0 :: c1 :: rest).map (·.target)).foldl max 0) := by
  unfold concatenate concatRun concatSub
  simp only [bind, Except.bind, pure, Except.pure, throw, throwThe, MonadExceptOf.throw]
  split; · rfl
  split; · rfl
  split
  · cases mergeSubruns (c0 :: c1 :: rest) false with
    | ok s => rfl
    | error e => cases mergeSubruns (c0 :: c1 :: rest) true <;> rfl
  · cases mergeSuperrun (c0 :: c1 :: rest) false with
    | error e => rfl
    | ok v =>
      cases mergeSubruns (c0 :: c1 :: rest) false with
      | ok s => rfl
      | error e => cases mergeSubruns (c0 :: c1 :: rest) true <;> rfl

theorem concat_rejects_types' {cs : List Chunk} {a : Bool} (hlen : 2 ≤ cs.length)
    (h : allEq (cs.map (·.dataType)) = false) : concatenate cs a = .error .valueError := by
  match cs, hlen with
  | c0 :: c1 :: rest, _ =>
    rw [concatenate_eq, h]
    rfl

theorem concat_rejects_runs' {cs : List Chunk} (hlen : 2 ≤ cs.length)
    (h : allEq (cs.map (·.runId)) = false) : concatenate cs false = .error .valueError := by
  match cs, hlen with
  | c0 :: c1 :: rest, _ =>
    rw [concatenate_eq, h]
    split <;> rfl

theorem concat_rejects_order' {cs : List Chunk} {a : Bool} (hlen : 2 ≤ cs.length)
    (h : outOfOrder 0 cs = true) : ∃ e, concatenate cs a = .error e := by
  match cs, hlen with
  | c0 :: c1 :: rest, _ =>
    rw [concatenate_eq]
    split; · exact ⟨_, rfl⟩
    split; · exact ⟨_, rfl⟩
    cases concatRun (c0 :: c1 :: rest) c0 with
    | error e => exact ⟨_, rfl⟩
    | ok p =>
      cases concatSub (c0 :: c1 :: rest) with
      | error e => exact ⟨_, rfl⟩
      | ok s =>
        exact ⟨.valueError, by simp only [bind, Except.bind]⟩

theorem mergableCheck_nil (m : Bool) : mergableCheck m [] = .ok [] := rfl

theorem sortedByTime_append {a b : List Row} (ha : SortedByTime a) (hb : SortedByTime b)
    (hab : ∀ x ∈ a, ∀ y ∈ b, x.time ≤ y.time) : SortedByTime (a ++ b) := by
  rw [sortedByTime_iff_pairwise] at *
  exact List.pairwise_append.2 ⟨ha, hb, hab⟩

/-- concatenating two adjacent good chunks of the same type and run -/
theorem concat_good2 {a b : Chunk} (ha : a.good = true) (hb : b.good = true) (hadj : a.stop = b.start)
    (hty : a.dataType = b.dataType) (hrun : a.runId = b.runId) :
    ∃ rid, a.runId = some rid ∧
      concatenate [a, b] false = .ok ⟨a.dataType, a.kind, some rid, a.start, b.stop, a.rows ++ b.rows, none,
        [⟨rid, a.start, b.stop⟩], max a.target b.target⟩ ∧
      (Chunk.good ⟨a.dataType, a.kind, some rid, a.start, b.stop, a.rows ++ b.rows, none,
        [⟨rid, a.start, b.stop⟩], max a.target b.target⟩) = true := by
  simp only [Chunk.good, Bool.and_eq_true] at ha hb
  obtain ⟨hwa, hsa⟩ := ha
  obtain ⟨hwb, hsb⟩ := hb
  obtain ⟨hsuba, rid, hrida, hsupa⟩ := (Chunk.simple_iff a).1 hsa
  obtain ⟨hsubb, rid', hridb, hsupb⟩ := (Chunk.simple_iff b).1 hsb
  obtain ⟨a0, ase, asrt, apos, ain⟩ := (Chunk.wf_iff a).1 hwa
  obtain ⟨b0, bse, bsrt, bpos, bin⟩ := (Chunk.wf_iff b).1 hwb
  have hin : ∀ x ∈ a.rows ++ b.rows, a.start ≤ x.time ∧ x.endt ≤ b.stop := by
    intro x hx
    simp at hx
    rcases hx with hx | hx
    · have := ain x hx; omega
    · have := bin x hx; omega
  refine ⟨rid, hrida, ?_, ?_⟩
  · rw [concatenate_eq]
    have h1 : allEq (List.map (fun x => x.dataType) [a, b]) = true := by simp [allEq, hty]
    have h2 : allEq (List.map (fun x => x.runId) [a, b]) = true := by simp [allEq, hrun]
    have h3 : concatRun [a, b] a = .ok (some rid, none) := by
      simp only [concatRun]; rw [h2]; simp [hrida, pure, Except.pure]
    have h4 : concatSub [a, b] = .ok none := by
      simp [concatSub, mergeSubruns, collectRuns, hsuba, hsubb, mergableCheck_nil, bind, Except.bind, pure, Except.pure]
    have h5 : outOfOrder 0 [a, b] = false := by
      simp [outOfOrder]; omega
    simp only [h1, h2, h3, h4, h5, bind, Except.bind]
    simp
    have := mkChunk_plain (dt := a.dataType) (k := a.kind) (rid := rid) (tg := max a.target b.target)
      (sup := none) a0 (by omega : a.start ≤ b.stop) hin (Or.inl rfl)
    rw [← this]
  · simp only [Chunk.good, Bool.and_eq_true]
    refine ⟨(Chunk.wf_iff _).2 ⟨a0, (by omega : a.start ≤ b.stop), ?_, ?_, hin⟩,
      (Chunk.simple_iff _).2 ⟨rfl, rid, rfl, rfl⟩⟩
    · apply sortedByTime_append asrt bsrt
      intro x hx y hy
      have := ain x hx; have := bin y hy; have := apos x hx
      omega
    · intro x hx
      simp at hx
      rcases hx with hx | hx
      · exact apos x hx
      · exact bpos x hx

/-! ### `merge` -/

theorem allEq_cons_iff {α} [BEq α] [LawfulBEq α] (a : α) (l : List α) :
    allEq (a :: l) = true ↔ ∀ x ∈ l, x = a := by
  simp [allEq]

theorem allEq_map_iff {α β} [BEq β] [LawfulBEq β] (f : α → β) (a : α) (l : List α) :
    allEq ((a :: l).map f) = true ↔ ∀ x ∈ a :: l, f x = f a := by
  simp [allEq]

theorem mergeChunks_eq (c0 c1 : Chunk) (rest : List Chunk) (dt : String) :
    mergeChunks (c0 :: c1 :: rest) dt =
      if !allEq ((c0 :: c1 :: rest).map (·.kind)) then .error .valueError
      else if !allEq ((c0 :: c1 :: rest).map (·.runId)) then .error .valueError
      else if !allEq ((c0 :: c1 :: rest).map (·.rows.length)) then .error .valueError
      else if !allEq ((c0 :: c1 :: rest).map (fun c => (c.start, c.stop))) then .error .valueError
      else mergeSubruns (c0 :: c1 :: rest) true >>= fun sub =>
        mergeSuperrun (c0 :: c1 :: rest) true >>= fun sup =>
        mkChunk dt c0.kind c0.runId c0.start c0.stop
          (zipRows c0.rows ((c0 :: c1 :: rest).getLast?.getD c0).rows) sub (some sup)
          (((c0 :: c1 :: rest).map (·.target)).foldl max 0) := by
  unfold mergeChunks
  simp only [bind, Except.bind, throw, throwThe, MonadExceptOf.throw]

theorem merge_rejects' {cs : List Chunk} {dt : String} (hlen : 2 ≤ cs.length)
    (h : allEq (cs.map (·.kind)) = false ∨ allEq (cs.map (·.runId)) = false ∨
      allEq (cs.map (·.rows.length)) = false ∨ allEq (cs.map (fun c => (c.start, c.stop))) = false) :
    mergeChunks cs dt = .error .valueError := by
  match cs, hlen with
  | c0 :: c1 :: rest, _ =>
    rw [mergeChunks_eq]
    rcases h with h | h | h | h
    · rw [h]; rfl
    · rw [h]; split <;> rfl
    · rw [h]; split; · rfl
      split <;> rfl
    · rw [h]; split; · rfl
      split; · rfl
      split <;> rfl

theorem zipRows_length (a b : List Row) : (zipRows a b).length = min a.length b.length := by
  induction a generalizing b with
  | nil => simp [zipRows]
  | cons x xs ih =>
    cases b with
    | nil => simp [zipRows]
    | cons y ys => simp [zipRows, ih]

theorem zipRows_cols {a b : List Row} (h : a.length = b.length) :
    (zipRows a b).map (·.id) = a.map (·.id) ∧ (zipRows a b).map (·.time) = b.map (·.time) ∧
      (zipRows a b).map (·.endt) = b.map (·.endt) := by
  induction a generalizing b with
  | nil => cases b with
    | nil => simp [zipRows]
    | cons y ys => simp at h
  | cons x xs ih =>
    cases b with
    | nil => simp at h
    | cons y ys =>
      simp at h
      have := ih h
      simp [zipRows, this]

theorem merge_spec' {cs : List Chunk} {dt : String} {c : Chunk} (hlen : 2 ≤ cs.length)
    (h : mergeChunks cs dt = .ok c) :
    ∃ c0 cl, cs.head? = some c0 ∧ cs.getLast? = some cl ∧
      (∀ x ∈ cs, x.kind = c0.kind ∧ x.runId = c0.runId ∧ x.rows.length = c0.rows.length ∧
        x.start = c0.start ∧ x.stop = c0.stop) ∧
      c.dataType = dt ∧ c.kind = c0.kind ∧ c.runId = c0.runId ∧ c.start = c0.start ∧ c.stop = c0.stop ∧
      c.rows.length = c0.rows.length ∧ c.rows.map (·.id) = c0.rows.map (·.id) ∧
      c.rows.map (·.time) = cl.rows.map (·.time) ∧ c.rows.map (·.endt) = cl.rows.map (·.endt) := by
  match cs, hlen with
  | c0 :: c1 :: rest, _ =>
    rw [mergeChunks_eq] at h
    split at h; · simp at h
    rename_i hk
    split at h; · simp at h
    rename_i hr
    split at h; · simp at h
    rename_i hl
    split at h; · simp at h
    rename_i hrg
    simp only [Bool.not_eq_true', Bool.not_eq_false] at hk hr hl hrg
    rw [allEq_map_iff] at hk hr hl hrg
    obtain ⟨sub, -, h⟩ := bind_eq_ok.1 h
    obtain ⟨sup, -, h⟩ := bind_eq_ok.1 h
    obtain ⟨f1, f2, f3, f4, f5, f6, -⟩ := mkChunk_fields h
    obtain ⟨cl, hcl⟩ : ∃ cl, (c0 :: c1 :: rest).getLast? = some cl := by
      cases hx : (c0 :: c1 :: rest).getLast? with
      | none => simp at hx
      | some cl => exact ⟨cl, rfl⟩
    have hclm : cl ∈ c0 :: c1 :: rest := List.mem_of_getLast? hcl
    have hlen' : c0.rows.length = cl.rows.length := (hl cl hclm).symm
    rw [hcl] at f6
    simp only [Option.getD_some] at f6
    have hz := zipRows_cols hlen'
    refine ⟨c0, cl, rfl, hcl, ?_, f1, f2, f3, f4, f5, ?_, ?_, ?_, ?_⟩
    · intro x hx
      have := hrg x hx
      simp only [Prod.mk.injEq] at this
      exact ⟨hk x hx, hr x hx, hl x hx, this.1, this.2⟩
    · rw [f6, zipRows_length]; omega
    · rw [f6]; exact hz.1
    · rw [f6]; exact hz.2.1
    · rw [f6]; exact hz.2.2

/-! ### `merge_arrs`: last writer wins, column by column -/

theorem getCol_nil (f : String) : getCol [] f = none := rfl

theorem getCol_cons (k : String) (w : List Int) (rest : Cols) (f : String) :
    getCol ((k, w) :: rest) f = if k = f then some w else getCol rest f := by
  unfold getCol
  by_cases h : k = f
  · simp [h]
  · simp [h]

theorem getCol_setCol (cs : Cols) (k : String) (v : List Int) (f : String) :
    getCol (setCol cs k v) f = if k = f then some v else getCol cs f := by
  induction cs with
  | nil => simp [setCol, getCol_cons, getCol_nil]
  | cons kv rest ih =>
    obtain ⟨k', w⟩ := kv
    simp only [setCol]
    by_cases h1 : k' = k
    · subst h1
      by_cases h2 : k' = f <;> simp [getCol_cons, h2]
    · simp only [beq_iff_eq, h1, if_false, getCol_cons, ih]
      by_cases h2 : k' = f
      · subst h2
        have : ¬ k = k' := fun h => h1 h.symm
        simp [this]
      · simp [h2]

/-- the last entry for field `f` in arrival order -/
def lastEntry (entries : Cols) (f : String) : Option (List Int) :=
  (entries.reverse.find? (fun kv => kv.1 == f)).map (·.2)

theorem getCol_foldl_setCol (l : Cols) (acc : Cols) (f : String) :
    getCol (l.foldl (fun acc kv => setCol acc kv.1 kv.2) acc) f =
      match lastEntry l f with
      | some v => some v
      | none => getCol acc f := by
  induction l generalizing acc with
  | nil => simp [lastEntry]
  | cons kv rest ih =>
    simp only [List.foldl_cons]
    rw [ih, getCol_setCol]
    simp only [lastEntry, List.reverse_cons, List.find?_append]
    cases h : List.find? (fun kv => kv.1 == f) rest.reverse with
    | some x => simp
    | none =>
      by_cases h2 : kv.1 = f
      · have : (kv.1 == f) = true := by simp [h2]
        simp [h2, List.find?]
      · have : (kv.1 == f) = false := by simp [h2]
        simp [h2, List.find?, this]

theorem mergeArrs_eq (arrs : List Cols) :
    mergeArrs arrs = arrs.flatten.foldl (fun acc kv => setCol acc kv.1 kv.2) [] := by
  unfold mergeArrs
  generalize ([] : Cols) = acc
  induction arrs generalizing acc with
  | nil => rfl
  | cons a rest ih =>
    simp only [List.foldl_cons, List.flatten_cons, List.foldl_append]
    exact ih _

theorem mergeArrs_col' (arrs : List Cols) (f : String) :
    getCol (mergeArrs arrs) f = lastEntry arrs.flatten f := by
  rw [mergeArrs_eq, getCol_foldl_setCol]
  cases lastEntry arrs.flatten f <;> simp [getCol]

/-! ### `_mergable_check` raises nothing but `ValueError` -/

theorem chunk_eta_simple (c : Chunk) (rid : String) (hsub : c.subruns = none) (hrid : c.runId = some rid)
    (hsup : c.superrun = [⟨rid, c.start, c.stop⟩]) :
    (⟨c.dataType, c.kind, some rid, c.start, c.stop, c.rows, none, [⟨rid, c.start, c.stop⟩], c.target⟩ : Chunk) = c := by
  cases c
  simp_all

def SpansNE (m : List (String × List (Int × Int))) : Prop := ∀ e ∈ m, e.2 ≠ []

theorem addRun_ne {acc : List (String × List (Int × Int))} (r : Run) (h : SpansNE acc) :
    SpansNE (addRun acc r) := by
  induction acc with
  | nil => intro e he; simp [addRun] at he; subst he; simp
  | cons kv rest ih =>
    obtain ⟨k, v⟩ := kv
    simp only [addRun]
    have hrest : SpansNE rest := fun e he => h e (by simp [he])
    split
    · intro e he
      simp at he
      rcases he with rfl | he
      · simp
      · exact hrest e he
    · intro e he
      simp at he
      rcases he with rfl | he
      · exact h _ (by simp)
      · exact ih hrest e he

theorem foldl_addRun_ne (l : Runs) {acc : List (String × List (Int × Int))} (h : SpansNE acc) :
    SpansNE (l.foldl addRun acc) := by
  induction l generalizing acc with
  | nil => exact h
  | cons r rest ih => exact ih (addRun_ne r h)

theorem collectRuns_ne (rss : List (Option Runs)) : SpansNE (collectRuns rss) := by
  unfold collectRuns
  have h0 : SpansNE [] := by intro e he; simp at he
  generalize ([] : List (String × List (Int × Int))) = acc at h0
  induction rss generalizing acc with
  | nil => exact h0
  | cons rs rest ih =>
    simp only [List.foldl_cons]
    apply ih
    cases rs with
    | none => exact h0
    | some l => exact foldl_addRun_ne l h0

theorem mergableCheck_error {merge : Bool} {m : List (String × List (Int × Int))} {e : Err}
    (hne : SpansNE m) (h : mergableCheck merge m = .error e) : e = .valueError := by
  unfold mergableCheck at h
  induction m generalizing e with
  | nil => simp [pure, Except.pure] at h
  | cons kv rest ih =>
    rw [List.mapM_cons] at h
    rcases bind_eq_error.1 h with h1 | ⟨b, -, h2⟩
    · obtain ⟨k, spans⟩ := kv
      have hsp : spans ≠ [] := hne (k, spans) (by simp)
      simp only at h1
      split at h1
      · rename_i heq
        have := congrArg List.length heq
        simp at this
        exact absurd this hsp
      · repeat' split at h1
        all_goals first
          | (simp [throw, throwThe, MonadExceptOf.throw] at h1; exact h1.symm)
          | (simp [pure, Except.pure] at h1)
    · rcases bind_eq_error.1 h2 with h3 | ⟨bs, -, h4⟩
      · exact ih (fun e he => hne e (by simp [he])) h3
      · simp [pure, Except.pure] at h4

theorem mergeSubruns_error {cs : List Chunk} {m : Bool} {e : Err} (h : mergeSubruns cs m = .error e) :
    e = .valueError := by
  unfold mergeSubruns at h
  rcases bind_eq_error.1 h with h1 | ⟨b, -, h2⟩
  · exact mergableCheck_error (collectRuns_ne _) h1
  · simp [pure, Except.pure] at h2

theorem mergeSuperrun_error {cs : List Chunk} {m : Bool} {e : Err} (h : mergeSuperrun cs m = .error e) :
    e = .valueError :=
  mergableCheck_error (collectRuns_ne _) h

/-- `Chunk.concatenate` raises nothing but `ValueError` -/
theorem concatenate_error {cs : List Chunk} {a : Bool} {e : Err} (h : concatenate cs a = .error e) :
    e = .valueError := by
  match cs with
  | [] => simp [concatenate, throw, throwThe, MonadExceptOf.throw] at h; exact h.symm
  | [c] => simp [concatenate, pure, Except.pure] at h
  | c0 :: c1 :: rest =>
    rw [concatenate_eq] at h
    split at h; · simp at h; exact h.symm
    split at h; · simp at h; exact h.symm
    rcases bind_eq_error.1 h with h1 | ⟨p, -, h⟩
    · unfold concatRun at h1
      split at h1
      · simp [pure, Except.pure] at h1
      · rcases bind_eq_error.1 h1 with h2 | ⟨s, -, h3⟩
        · exact mergeSuperrun_error h2
        · simp [pure, Except.pure] at h3
    · rcases bind_eq_error.1 h with h1 | ⟨s, -, h⟩
      · unfold concatSub at h1
        split at h1
        · simp [pure, Except.pure] at h1
        · exact mergeSubruns_error h1
      · split at h
        · simp at h; exact h.symm
        · exact mkChunk_error h

/-! ### splitting run annotations and merging them back -/

theorem splitRunsList_cons (t : Int) (r : Run) (rest : Runs) :
    splitRunsList t (r :: rest) =
      if t ≤ r.start then ((splitRunsList t rest).1, r :: (splitRunsList t rest).2)
      else if t < r.stop then
        ({ r with stop := t } :: (splitRunsList t rest).1, { r with start := t } :: (splitRunsList t rest).2)
      else (r :: (splitRunsList t rest).1, (splitRunsList t rest).2) := by
  rcases hsp : splitRunsList t rest with ⟨a, b⟩
  simp only [splitRunsList, hsp]

theorem splitRunsList_all_right (t : Int) (rs : Runs) (h : ∀ x ∈ rs, t ≤ x.start) :
    splitRunsList t rs = ([], rs) := by
  induction rs with
  | nil => rfl
  | cons r rest ih =>
    rw [splitRunsList_cons, ih (fun x hx => h x (by simp [hx]))]
    simp [h r (by simp)]

theorem splitRunsList_props (t : Int) (rs : Runs) (hpos : ∀ r ∈ rs, r.start < r.stop) :
    (∀ x ∈ (splitRunsList t rs).1, x.start < x.stop ∧ ∃ y ∈ rs, x.id = y.id) ∧
    (∀ x ∈ (splitRunsList t rs).2, x.start < x.stop ∧ ∃ y ∈ rs, x.id = y.id) := by
  induction rs with
  | nil => simp [splitRunsList]
  | cons r rest ih =>
    have ih' := ih (fun x hx => hpos x (by simp [hx]))
    have hr := hpos r (by simp)
    rw [splitRunsList_cons]
    have lift : ∀ x : Run, (∃ y ∈ rest, x.id = y.id) → ∃ y ∈ r :: rest, x.id = y.id := by
      rintro x ⟨y, hy, e⟩; exact ⟨y, by simp [hy], e⟩
    split
    · refine ⟨fun x hx => ⟨(ih'.1 x hx).1, lift x (ih'.1 x hx).2⟩, ?_⟩
      intro x hx
      simp at hx
      rcases hx with rfl | hx
      · exact ⟨hr, x, by simp, rfl⟩
      · exact ⟨(ih'.2 x hx).1, lift x (ih'.2 x hx).2⟩
    · split
      · constructor
        · intro x hx
          simp at hx
          rcases hx with rfl | hx
          · exact ⟨by simp; omega, r, by simp, rfl⟩
          · exact ⟨(ih'.1 x hx).1, lift x (ih'.1 x hx).2⟩
        · intro x hx
          simp at hx
          rcases hx with rfl | hx
          · exact ⟨by simp; omega, r, by simp, rfl⟩
          · exact ⟨(ih'.2 x hx).1, lift x (ih'.2 x hx).2⟩
      · refine ⟨?_, fun x hx => ⟨(ih'.2 x hx).1, lift x (ih'.2 x hx).2⟩⟩
        intro x hx
        simp at hx
        rcases hx with rfl | hx
        · exact ⟨hr, x, by simp, rfl⟩
        · exact ⟨(ih'.1 x hx).1, lift x (ih'.1 x hx).2⟩

theorem popEmpty_of_pos (l : Runs) (h : ∀ x ∈ l, x.start < x.stop) :
    popEmpty l = if l = [] then none else some l := by
  have hf : l.filter (fun r => r.start != r.stop) = l := by
    rw [List.filter_eq_self]
    intro x hx
    have := h x hx
    simp; omega
  unfold popEmpty
  rw [hf]
  cases l <;> simp

theorem collectRuns_two (a b : Runs) (ha : ∀ x ∈ a, x.start < x.stop) (hb : ∀ x ∈ b, x.start < x.stop) :
    collectRuns [popEmpty a, popEmpty b] = b.foldl addRun (a.foldl addRun []) := by
  rw [popEmpty_of_pos a ha, popEmpty_of_pos b hb]
  cases a <;> cases b <;> simp [collectRuns]

theorem foldl_addRun_fresh (l : Runs) (k : String) (v : List (Int × Int))
    (X : List (String × List (Int × Int))) (h : ∀ x ∈ l, x.id ≠ k) :
    l.foldl addRun ((k, v) :: X) = (k, v) :: l.foldl addRun X := by
  induction l generalizing X with
  | nil => rfl
  | cons r rest ih =>
    have hr : ¬ k = r.id := fun e => h r (by simp) e.symm
    simp only [List.foldl_cons, addRun, beq_iff_eq, hr, if_false]
    exact ih _ (fun x hx => h x (by simp [hx]))

/-- the spans recorded for run `r` after splitting at `t` and collecting both sides -/
def splitEntry (t : Int) (r : Run) : String × List (Int × Int) :=
  (r.id, if r.start < t ∧ t < r.stop then [(r.start, t), (t, r.stop)] else [(r.start, r.stop)])

theorem collect_split (t : Int) (rs : Runs) (hs : rs.Pairwise (fun a b => a.start ≤ b.start))
    (hnd : (rs.map (·.id)).Nodup) (hpos : ∀ r ∈ rs, r.start < r.stop) :
    (splitRunsList t rs).2.foldl addRun ((splitRunsList t rs).1.foldl addRun []) = rs.map (splitEntry t) := by
  induction rs with
  | nil => rfl
  | cons r rest ih =>
    have hs' := List.pairwise_cons.1 hs
    simp only [List.map_cons, List.nodup_cons, List.mem_map, not_exists, not_and] at hnd
    have ih' := ih hs'.2 hnd.2 (fun x hx => hpos x (by simp [hx]))
    have hprops := splitRunsList_props t rest (fun x hx => hpos x (by simp [hx]))
    have hfresh1 : ∀ x ∈ (splitRunsList t rest).1, x.id ≠ r.id := by
      intro x hx e
      obtain ⟨y, hy, e'⟩ := (hprops.1 x hx).2
      exact hnd.1 y hy (by rw [← e', e])
    have hfresh2 : ∀ x ∈ (splitRunsList t rest).2, x.id ≠ r.id := by
      intro x hx e
      obtain ⟨y, hy, e'⟩ := (hprops.2 x hx).2
      exact hnd.1 y hy (by rw [← e', e])
    have hr := hpos r (by simp)
    rw [splitRunsList_cons]
    simp only [List.map_cons]
    split
    · rename_i h1
      have hall : ∀ x ∈ rest, t ≤ x.start := by
        intro x hx; have := hs'.1 x hx; omega
      have hnil := splitRunsList_all_right t rest hall
      rw [hnil] at ih' hfresh2 ⊢
      simp only [List.foldl_nil, List.foldl_cons, addRun] at ih' ⊢
      rw [foldl_addRun_fresh _ _ _ _ hfresh2, ih']
      have : ¬ (r.start < t ∧ t < r.stop) := by omega
      simp [splitEntry, this]
    · split
      · rename_i h1 h2
        simp only [List.foldl_cons, addRun]
        rw [foldl_addRun_fresh _ _ _ _ hfresh1]
        simp only [addRun, beq_self_eq_true, if_true]
        rw [foldl_addRun_fresh _ _ _ _ hfresh2, ih']
        have : r.start < t ∧ t < r.stop := by omega
        simp [splitEntry, this]
      · rename_i h1 h2
        simp only [List.foldl_cons, addRun]
        rw [foldl_addRun_fresh _ _ _ _ hfresh1, foldl_addRun_fresh _ _ _ _ hfresh2, ih']
        have : ¬ (r.start < t ∧ t < r.stop) := by omega
        simp [splitEntry, this]

theorem mergableCheck_splitEntries (t : Int) (rs : Runs) :
    mergableCheck false (rs.map (splitEntry t)) = .ok rs := by
  unfold mergableCheck
  induction rs with
  | nil => rfl
  | cons r rest ih =>
    rw [List.map_cons, List.mapM_cons, ih]
    simp only [splitEntry]
    by_cases h : r.start < t ∧ t < r.stop
    · have hsort : [(r.start, t), (t, r.stop)].mergeSort (fun a b => decide (a.1 ≤ b.1))
          = [(r.start, t), (t, r.stop)] := by
        apply List.mergeSort_of_pairwise
        simp; omega
      simp [h, hsort, contiguousSpans, bind, Except.bind, pure, Except.pure]
    · simp [h, contiguousSpans, bind, Except.bind, pure, Except.pure]

/-- splitting sorted, distinct, non-empty run spans at `t` and merging the two sides back with
`_merge_runs_in_chunk` + `_mergable_check(merge=False)` returns the original spans -/
theorem split_merge_runs' (t : Int) (rs : Runs) (hs : rs.Pairwise (fun a b => a.start ≤ b.start))
    (hnd : (rs.map (·.id)).Nodup) (hpos : ∀ r ∈ rs, r.start < r.stop) :
    mergableCheck false (collectRuns [(splitRuns (some rs) t).1, (splitRuns (some rs) t).2]) = .ok rs := by
  have hprops := splitRunsList_props t rs hpos
  simp only [splitRuns]
  rw [collectRuns_two _ _ (fun x hx => (hprops.1 x hx).1) (fun x hx => (hprops.2 x hx).1),
    collect_split t rs hs hnd hpos, mergableCheck_splitEntries]


end Strax
