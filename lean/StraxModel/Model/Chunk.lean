import StraxModel.Model.SplitArray
/-
  Model of `strax.chunk.Chunk`: constructor validation, `split`, `concatenate`, `merge`,
  sub-run / super-run bookkeeping (`_split_runs_in_chunk`, `_merge_runs_in_chunk`,
  `_mergable_check`, `_sorted_subruns_check`), `continuity_check`.
  dtype checks live in Model/Contract.lean (C12); here data is a `List Row`.
-/
namespace Strax

/-- one entry of a `subruns` / `superrun` dict: (run_id, start, end) -/
structure Run where
  id : String
  start : Int
  stop : Int
deriving Repr, DecidableEq, Inhabited

abbrev Runs := List Run

structure Chunk where
  dataType : String
  kind : String
  runId : Option String
  start : Int
  stop : Int
  rows : List Row
  subruns : Option Runs
  superrun : Runs
  /-- target size, expressed in rows (the harness maps it to `target_size_mb`) -/
  target : Nat
deriving Repr, DecidableEq, Inhabited

/-- order of the `subruns` / `superrun` setters: by `(start, end)` lexicographically (since the D31 fix;
before it the key was `start` alone) -/
def runLe (a b : Run) : Bool := decide (a.start < b.start ∨ (a.start = b.start ∧ a.stop ≤ b.stop))

/-- `dict(sorted(runs.items(), key=(start, end)))` — Python's sort is stable, so is `mergeSort`. -/
def sortRuns (rs : Runs) : Runs := rs.mergeSort runLe

/-- `_sorted_subruns_check`: consecutive entries must not overlap. -/
def runsOverlap : Runs → Bool
  | [] => false
  | [_] => false
  | a :: b :: rest => decide (a.stop > b.start) || runsOverlap (b :: rest)

/-- maximum end time over the last 500 rows (`strax.endtime(self.data[-500:]).max()`) -/
def lastEndMax (rows : List Row) : Option Int :=
  match rows.drop (rows.length - 500) with
  | [] => none
  | r :: rs => some (maxEnd r.endt rs)

/-- `Chunk.__init__` (everything except the dtype test). -/
def mkChunk (dataType kind : String) (runId : Option String) (start stop : Int) (rows : List Row)
    (subruns : Option Runs) (superrun : Option Runs) (target : Nat) : Except Err Chunk := do
  -- subruns setter
  let subruns ← match subruns with
    | none => pure none
    | some s =>
      let s := sortRuns s
      if runsOverlap s then throw Err.valueError else pure (some s)
  if start < 0 then throw Err.valueError
  if start > stop then throw Err.valueError
  match rows with
  | [] => pure ()
  | r0 :: _ =>
    if r0.time < start then throw Err.valueError
    match lastEndMax rows with
    | some e => if e > stop then throw Err.valueError
    | none => pure ()
  -- superrun setter
  let superrun ← match superrun with
    | none =>
      match runId with
      | some rid => pure [Run.mk rid start stop]
      | none => throw Err.valueError
    | some s => pure s
  if superrun.isEmpty then throw Err.valueError
  if superrun.length == 1 && runId.isNone then throw Err.valueError
  let superrun := sortRuns superrun
  if runsOverlap superrun then throw Err.valueError
  pure { dataType, kind, runId, start, stop, rows, subruns, superrun, target }

def Chunk.isSuperrun (c : Chunk) : Bool :=
  match c.subruns, c.runId with
  | some (_ :: _), some rid => rid.startsWith "_"
  | _, _ => false

/-- `is_superrun` is `bool(self.subruns) and self.run_id.startswith("_")`: with non-empty sub-runs and
`run_id = None` (a legal product of `concatenate(allow_superrun=True)` across run ids) the real property
raises `AttributeError` ('NoneType' object has no attribute 'startswith'); every caller of `is_superrun`,
`promised_continuity`, `first_subrun`, `last_subrun` inherits it (`Err.other` in the canonical form).
`Chunk.isSuperrun` below is the value of the property when it does not raise. -/
def Chunk.isSuperrunBad (c : Chunk) : Bool :=
  match c.subruns, c.runId with
  | some (_ :: _), none => true
  | _, _ => false

def Chunk.promisedContinuity (c : Chunk) : Bool :=
  if !c.isSuperrun then true
  else
    match c.subruns with
    | some (s :: ss) => decide (s.start = c.start) && decide (((s :: ss).getLast?.getD s).stop = c.stop)
    | _ => true

/-- `_split_runs_in_chunk` + `_pop_out_empty_run_id` + `{}`→`None`. -/
def splitRunsList (t : Int) : Runs → Runs × Runs
  | [] => ([], [])
  | r :: rest =>
    let (a, b) := splitRunsList t rest
    if t ≤ r.start then (a, r :: b)
    else if t < r.stop then ({ r with stop := t } :: a, { r with start := t } :: b)
    else (r :: a, b)

def popEmpty (rs : Runs) : Option Runs :=
  match rs.filter (fun r => r.start != r.stop) with
  | [] => none
  | l => some l

def splitRuns (runs : Option Runs) (t : Int) : Option Runs × Option Runs :=
  match runs with
  | none => (none, none)
  | some rs =>
    let (a, b) := splitRunsList t rs
    (popEmpty a, popEmpty b)

/-- `Chunk.split(t, allow_early_split)` for a chunk whose `is_superrun` does not raise -/
def Chunk.splitCore (c : Chunk) (t : Int) (early : Bool) : Except Err (Chunk × Chunk) := do
  let t := max (min t c.stop) c.start
  let (d1, d2, t) ←
    if t = c.stop then pure (c.rows, [], t)
    else if t = c.start then pure ([], c.rows, t)
    else splitArray c.rows t early
  let (sub1, sub2) := if c.promisedContinuity then splitRuns c.subruns t else (c.subruns, c.subruns)
  let (sup1, sup2) := splitRuns (some c.superrun) t
  let single (s : Option Runs) : Bool := match s with
    | none => true
    | some l => l.length == 1
  let run1 := if single sup1 then c.superrun.head?.map (·.id) else c.runId
  let run2 := if single sup2 then c.superrun.getLast?.map (·.id) else c.runId
  let c1 ← mkChunk c.dataType c.kind run1 c.start (max c.start t) d1 sub1 sup1 c.target
  let c2 ← mkChunk c.dataType c.kind run2 (max c.start t) (max t c.stop) d2 sub2 sup2 c.target
  pure (c1, c2)

/-- `Chunk.split(t, allow_early_split)`.  When `is_superrun` raises (`isSuperrunBad`), the data are split first
(so `CannotSplit` still wins), then `self.promised_continuity` raises `AttributeError`; nothing later runs. -/
def Chunk.split (c : Chunk) (t : Int) (early : Bool) : Except Err (Chunk × Chunk) :=
  if c.isSuperrunBad then
    match c.splitCore t early with
    | .error .cannotSplit => .error .cannotSplit
    | _ => .error .other
  else c.splitCore t early

/-! ### merging of run annotations -/

/-- `_merge_runs_in_chunk` over all chunks: run id → list of [start, end] in first-appearance order -/
def addRun (acc : List (String × List (Int × Int))) (r : Run) : List (String × List (Int × Int)) :=
  match acc with
  | [] => [(r.id, [(r.start, r.stop)])]
  | (k, v) :: rest => if k == r.id then (k, v ++ [(r.start, r.stop)]) :: rest else (k, v) :: addRun rest r

def collectRuns (rss : List (Option Runs)) : List (String × List (Int × Int)) :=
  rss.foldl (fun acc rs => match rs with
    | none => acc
    | some l => l.foldl addRun acc) []

def contiguousSpans : List (Int × Int) → Bool
  | [] => true
  | [_] => true
  | a :: b :: rest => decide (b.1 = a.2) && contiguousSpans (b :: rest)

/-- `_mergable_check` -/
def mergableCheck (merge : Bool) (m : List (String × List (Int × Int))) : Except Err Runs :=
  m.mapM fun (k, spans) =>
    let spans := spans.mergeSort (fun a b => decide (a.1 ≤ b.1))
    match spans with
    | [] => throw Err.other
    | s0 :: _ =>
      let ok := if merge then spans.all (fun s => s.1 == s0.1 && s.2 == s0.2) else contiguousSpans spans
      if !ok then throw Err.valueError
      else pure (Run.mk k s0.1 ((spans.getLast?.getD s0).2))

def mergeSubruns (cs : List Chunk) (merge : Bool) : Except Err (Option Runs) := do
  let r ← mergableCheck merge (collectRuns (cs.map (·.subruns)))
  pure (if r.isEmpty then none else some r)

def mergeSuperrun (cs : List Chunk) (merge : Bool) : Except Err Runs :=
  mergableCheck merge (collectRuns (cs.map (fun c => some c.superrun)))

def allEq [BEq α] : List α → Bool
  | [] => true
  | a :: rest => rest.all (· == a)

def outOfOrder : Int → List Chunk → Bool
  | _, [] => false
  | prev, c :: rest => decide (c.start < prev) || outOfOrder c.stop rest

/-- `Chunk.concatenate(chunks, allow_superrun)` -/
def concatenate (cs : List Chunk) (allowSuperrun : Bool) : Except Err Chunk :=
  match cs with
  | [] => throw Err.valueError
  | [c] => pure c
  | c0 :: _ => do
    if !allEq (cs.map (·.dataType)) then throw Err.valueError
    let sameRun := allEq (cs.map (·.runId))
    if !sameRun && !allowSuperrun then throw Err.valueError
    let (runId, superrun) ←
      if sameRun then pure (c0.runId, (none : Option Runs))
      else do
        let s ← mergeSuperrun cs false
        pure (none, some s)
    let subruns ← match mergeSubruns cs false with
      | .ok s => pure s
      | .error _ => mergeSubruns cs true
    if outOfOrder 0 cs then throw Err.valueError
    mkChunk c0.dataType c0.kind runId c0.start ((cs.getLast?.getD c0).stop)
      (cs.flatMap (·.rows)) subruns superrun ((cs.map (·.target)).foldl max 0)

/-- rows of a column-wise merge: interval fields come from the LAST chunk (last writer wins on
common fields), the identity carried here is the FIRST chunk's (the full column semantics is
`mergeArrs` below). -/
def zipRows : List Row → List Row → List Row
  | a :: as, b :: bs => { time := b.time, endt := b.endt, id := a.id } :: zipRows as bs
  | _, _ => []

/-- `Chunk.merge(chunks, data_type)` -/
def mergeChunks (cs : List Chunk) (dataType : String) : Except Err Chunk :=
  match cs with
  | [] => throw Err.valueError
  | [c] => pure c
  | c0 :: _ => do
    if !allEq (cs.map (·.kind)) then throw Err.valueError
    if !allEq (cs.map (·.runId)) then throw Err.valueError
    if !allEq (cs.map (·.rows.length)) then throw Err.valueError
    if !allEq (cs.map (fun c => (c.start, c.stop))) then throw Err.valueError
    let sub ← mergeSubruns cs true
    let sup ← mergeSuperrun cs true
    mkChunk dataType c0.kind c0.runId c0.start c0.stop
      (zipRows c0.rows (cs.getLast?.getD c0).rows) sub (some sup) ((cs.map (·.target)).foldl max 0)

/-! ### `strax.merge_arrs`: columns as association lists -/

abbrev Cols := List (String × List Int)

def setCol (cs : Cols) (name : String) (v : List Int) : Cols :=
  match cs with
  | [] => [(name, v)]
  | (k, w) :: rest => if k == name then (k, v) :: rest else (k, w) :: setCol rest name v

/-- later arrays overwrite earlier ones field by field -/
def mergeArrs (arrs : List Cols) : Cols :=
  arrs.foldl (fun acc a => a.foldl (fun acc (k, v) => setCol acc k v) acc) []

def getCol (cs : Cols) (name : String) : Option (List Int) :=
  (cs.find? (fun kv => kv.1 == name)).map (·.2)

/-! ### `continuity_check` -/

structure ContState where
  lastEnd : Option Int := none
  lastRun : Option (Option String) := none      -- `None` initially, then `some chunk.run_id`
  lastSubrun : Option Run := none                -- `{"run_id": None}` initially; the dict of a superrun chunk
  /-- `last_subrun` is Python `None` (what `chunk.last_subrun` is for a non-superrun chunk); subscripting it
  (`last_subrun["run_id"]`) raises `TypeError` -/
  lastSubIsNone : Bool := false
deriving Repr

def Chunk.firstSubrun (c : Chunk) : Option Run :=
  if c.isSuperrun then c.subruns.bind (·.head?) else none
def Chunk.lastSubrun (c : Chunk) : Option Run :=
  if c.isSuperrun then c.subruns.bind (·.getLast?) else none

def contStepCore (s : ContState) (c : Chunk) : Except Err ContState := do
  let s := if s.lastRun != some c.runId then { s with lastEnd := none, lastSubrun := none, lastSubIsNone := false } else s
  let s ← if c.isSuperrun then
      if s.lastSubIsNone then throw Err.typeError
      else if (c.firstSubrun.map (·.id)) != (s.lastSubrun.map (·.id)) then pure { s with lastEnd := none }
      else pure { s with lastEnd := s.lastSubrun.map (·.stop) }
    else pure s
  match s.lastEnd with
  | some e => if c.promisedContinuity && c.start != e then throw Err.valueError
  | none => pure ()
  pure { lastEnd := some c.stop, lastRun := some c.runId, lastSubrun := c.lastSubrun, lastSubIsNone := !c.isSuperrun }

/-- one iteration of `continuity_check`: `chunk.is_superrun` is evaluated right after the run-id reset, so a
chunk on which it raises stops the generator with `AttributeError` whatever the state -/
def contStep (s : ContState) (c : Chunk) : Except Err ContState :=
  if c.isSuperrunBad then .error .other else contStepCore s c

/-- number of chunks yielded before the check fails (all of them if it never fails) -/
def continuityCheck (cs : List Chunk) : Except Err Unit :=
  (cs.foldlM contStep ({} : ContState)) *> pure ()

end Strax
