/-
  Basic vocabulary shared by all strax models.  Import-free (core Lean only) so that the
  line-protocol driver links without Mathlib.
-/
namespace Strax

/-- A data row: half-open interval `[time, endt)` plus an opaque identity.  The identity stands
for "all the other bytes of the structured row": two row lists are bit-identical in the same
order iff their id lists are equal (the harness builds real structured rows from ids). -/
structure Row where
  time : Int
  endt : Int
  id   : Nat
deriving Repr, DecidableEq, Inhabited

/-- Exception kinds raised by the real code, as values. -/
inductive Err where
  | cannotSplit
  | valueError
  | runtimeError
  | typeError
  | keyError
  | dataNotAvailable
  | dataCorrupted
  | pluginGaveWrongOutput
  | mailboxKilled
  | mailboxFullTimeout
  | mailboxReadTimeout
  | invalidMessageNumber
  | mailboxAlreadyClosed
  | noBreakFound
  | notImplemented
  | assertionError
  | osError
  | other
deriving Repr, DecidableEq, Inhabited

def Err.name : Err → String
  | .cannotSplit => "CannotSplit"
  | .valueError => "ValueError"
  | .runtimeError => "RuntimeError"
  | .typeError => "TypeError"
  | .keyError => "KeyError"
  | .dataNotAvailable => "DataNotAvailable"
  | .dataCorrupted => "DataCorrupted"
  | .pluginGaveWrongOutput => "PluginGaveWrongOutput"
  | .mailboxKilled => "MailboxKilled"
  | .mailboxFullTimeout => "MailboxFullTimeout"
  | .mailboxReadTimeout => "MailboxReadTimeout"
  | .invalidMessageNumber => "InvalidMessageNumber"
  | .mailboxAlreadyClosed => "MailBoxAlreadyClosed"
  | .noBreakFound => "NoBreakFound"
  | .notImplemented => "NotImplementedError"
  | .assertionError => "AssertionError"
  | .osError => "OSError"
  | .other => "Other"

/-- rows sorted by start time (the only sortedness strax promises) -/
def SortedByTime : List Row → Prop
  | [] => True
  | [_] => True
  | a :: b :: rest => a.time ≤ b.time ∧ SortedByTime (b :: rest)

def sortedByTimeB : List Row → Bool
  | [] => true
  | [_] => true
  | a :: b :: rest => decide (a.time ≤ b.time) && sortedByTimeB (b :: rest)

/-- every row has strictly positive duration (law 4 excludes zero-duration rows) -/
def PositiveRows (rows : List Row) : Prop := ∀ r ∈ rows, r.time < r.endt

def positiveRowsB (rows : List Row) : Bool := rows.all fun r => decide (r.time < r.endt)

/-- row `r` straddles time `t` -/
def Row.straddles (r : Row) (t : Int) : Prop := r.time < t ∧ t < r.endt

instance (r : Row) (t : Int) : Decidable (r.straddles t) := by unfold Row.straddles; infer_instance

def ids (rows : List Row) : List Nat := rows.map (·.id)

/-- maximum end time of a list of rows, with a default for the empty list -/
def maxEnd (d : Int) : List Row → Int
  | [] => d
  | r :: rs => maxEnd (max d r.endt) rs

end Strax
