import StraxModel.Model.Basic
/-
  T12 MultiRun — (1) `strax.utils.multi_run`: sorted run ids, 2×workers submission window, one
  future handled per `wait(..., FIRST_COMPLETED)` round, run-id column, ignore_errors, final stable
  argsort by run id;  (2) the plugin-registry interleaving model behind `Context.get_iter`'s
  temporary merge plugin (`_temp_<hash>`): atomic accesses of the shared `_plugin_class_registry`
  dict and `_fixed_plugin_cache`, thread programs built from them, schedules.

  Import-free (core only) so that the line-protocol driver links.
-/
namespace Strax.MultiRun
open Strax

/-! ## 1. `multi_run` -/

/-- the rows returned by `exec_function` for one run (opaque row identities) -/
abbrev Rows := List Nat

/-- stable insertion into a list sorted by `key`: `a` goes in front of the first element whose key
is not smaller (so an element that was in front of equal keys stays in front of them) -/
def insertSorted (key : α → Nat) (a : α) : List α → List α
  | [] => [a]
  | b :: l => if key a ≤ key b then a :: b :: l else b :: insertSorted key a l

/-- stable sort by `key` (`strax.stable_sort` / `stable_argsort` are numpy mergesorts: stable) -/
def sortBy (key : α → Nat) : List α → List α
  | [] => []
  | a :: l => insertSorted key a (sortBy key l)

/-- a `concurrent.futures.Future` returned by `exc.submit(exec_function, r, …)`: its identity
(submission index) and the run id that was handed to `exec_function`.  `f.result()` /
`f.exception()` are `results f.arg`. -/
structure Fut where
  id : Nat
  arg : Nat
deriving DecidableEq, Repr

/-- loop state of `multi_run` -/
structure St where
  /-- `run_id_numpy[task_index:]`: sorted run ids not yet submitted -/
  pending : List Nat
  /-- number of submissions so far (identity of the next future) -/
  nextId : Nat
  /-- the dict `futures` (insertion ordered): future ↦ run id -/
  futures : List (Fut × Nat)
  /-- `zip(run_id_output, final_result)` in the order in which futures were handled -/
  final : List (Nat × Rows)
  /-- `failures` -/
  failures : List Nat
  /-- ghost: every run id handed to the executor so far, in submission order -/
  submitted : List Nat
deriving Repr

structure Cfg where
  /-- completion priority over future ids (future `k` computes the `k`-th smallest run id): of
  the futures that are running, the one listed first completes next; running futures that are
  not listed complete after the listed ones, oldest first.  Every list is a legal order. -/
  order : List Nat
  /-- what `exec_function(run_id, …)` returns or raises -/
  results : Nat → Except Err Rows
  ignoreErrors : Bool
  throwAway : Bool
  /-- `max_workers` (≥ 1; 0 makes `ThreadPoolExecutor` raise ValueError) -/
  workers : Nat

/-- `for r in islice(run_id_numpy, task_index, task_index + n): futures[exc.submit(f, r)] = r` -/
def submit : Nat → St → St
  | 0, st => st
  | n + 1, st =>
    match st.pending with
    | [] => st
    | r :: rest =>
      submit n { st with pending := rest, nextId := st.nextId + 1,
                         futures := st.futures ++ [(⟨st.nextId, r⟩, r)],
                         submitted := st.submitted ++ [r] }

/-- which running future completes next -/
def pickNext (order : List Nat) (running : List (Fut × Nat)) : Option (Fut × Nat) :=
  match order.findSome? (fun k => running.find? (fun p => p.1.id == k)) with
  | some p => some p
  | none => running.head?

/-- the `while futures:` loop, one handled future per iteration.  The executor runs the `workers`
oldest unfinished submissions (FIFO work queue), so only those can complete.  `fuel` = number of
runs; running out of fuel or finding no running future is reported as `Err.other` and is proved
unreachable in `Lemmas/MultiRun.lean`.  The error carries the runs submitted so far (all of them
are executed to the end: leaving the `with ThreadPoolExecutor` block waits for them). -/
def loop (c : Cfg) : Nat → St → Except (Err × List Nat) St
  | 0, st => if st.futures.isEmpty then .ok st else .error (.other, st.submitted)
  | fuel + 1, st =>
    if st.futures.isEmpty then .ok st else
    match pickNext c.order (st.futures.take c.workers) with
    | none => .error (.other, st.submitted)
    | some (f, label) =>
      -- `_run_id = futures.pop(f)`
      let st1 := { st with futures := st.futures.erase (f, label) }
      match c.results f.arg with
      | .error e =>
        if c.ignoreErrors then
          loop c fuel (submit 1 { st1 with failures := st1.failures ++ [label] })
        else .error (e, st.submitted)
      | .ok rows =>
        let st2 := if c.throwAway then st1 else { st1 with final := st1.final ++ [(label, rows)] }
        loop c fuel (submit 1 st2)

def St.init (sortedRuns : List Nat) : St := ⟨sortedRuns, 0, [], [], [], []⟩

/-- `multi_run`: value (`none` for `throw_away_result`) and the runs that were executed -/
def multiRunFull (c : Cfg) (runs : List Nat) :
    Except (Err × List Nat) (Option (List (Nat × Rows)) × List Nat) :=
  if c.workers = 0 then .error (.valueError, []) else
  match loop c runs.length (submit (2 * c.workers) (St.init (sortBy id runs))) with
  | .error e => .error e
  | .ok st =>
    -- `[final_result[ind] for ind in stable_argsort(run_id_output)]`
    .ok (if c.throwAway then none else some (sortBy Prod.fst st.final), st.submitted)

/-- `multi_run(exec_function, runs, max_workers=workers, ignore_errors=…)`: the list of per-run
results, each paired with the run id that is attached to it as the `run_id` column -/
def multiRun (runs : List Nat) (completionOrder : List Nat) (results : Nat → Except Err Rows)
    (ignoreErrors : Bool) (workers : Nat) : Except Err (List (Nat × Rows)) :=
  match multiRunFull ⟨completionOrder, results, ignoreErrors, false, workers⟩ runs with
  | .error e => .error e.1
  | .ok (some r, _) => .ok r
  | .ok (none, _) => .ok []

/-- what sequential single-run calls give: one result per run in sorted run-id order, runs that
fail left out -/
def sequential (runs : List Nat) (results : Nat → Except Err Rows) : List (Nat × Rows) :=
  (sortBy id runs).filterMap fun r =>
    match results r with
    | .ok rows => some (r, rows)
    | .error _ => none

/-! ## 2. The plugin registry under concurrent `get_iter` calls

Shared by all worker threads of one context: the dict `_plugin_class_registry` (insertion ordered,
data type ↦ plugin class) and `_fixed_plugin_cache` (`None` or a dict).  `get_iter` with several
targets of one data kind registers a `MergeOnlyPlugin` subclass under the name
`_temp_<hash(targets)>` (same name in every thread that asks for the same targets, a *new* class
object per call), resolves it through `get_components`, and then deletes every `_temp*` key. -/

inductive Key where
  | plugin (n : Nat)
  | temp (k : Nat)
deriving DecidableEq, Repr

def Key.isTemp : Key → Bool
  | .temp _ => true
  | .plugin _ => false

/-- the registry: keys in insertion order with the identity of the class stored under them -/
abbrev Registry := List (Key × Nat)

def regKeys (reg : Registry) : List Key := reg.map Prod.fst

def regLookup (reg : Registry) (k : Key) : Option Nat := (reg.find? (·.1 == k)).map Prod.snd

/-- `registry[k] = cls` : replace in place or append -/
def regSet (k : Key) (cls : Nat) : Registry → Registry
  | [] => [(k, cls)]
  | (k', c') :: rest => if k' = k then (k, cls) :: rest else (k', c') :: regSet k cls rest

/-- `del registry[k]` (caller checked presence) -/
def regDel (k : Key) (reg : Registry) : Registry := reg.filter (·.1 != k)

/-- shared state -/
structure Shared where
  reg : Registry
  /-- `_fixed_plugin_cache is not None` -/
  cacheSet : Bool
  /-- ghost: number of insertions of a *new* key so far (see `Iter.tainted`) -/
  inserts : Nat
  /-- program layer only: the key sets of the inner plugin-cache dicts (`_fixed_plugin_cache[h]`)
  created so far, in creation order; a thread may keep using an old one after the attribute was
  rebound.  The access layer replays every dict separately and leaves this field alone. -/
  inner : List (List Key) := []
deriving DecidableEq, Repr

/-- one atomic access of the shared state (one Python source line of `context.py` does at most one
of these between two points where the line-level interleaver may switch threads) -/
inductive Act where
  /-- `registry.get(k, None)` -/
  | lookup (k : Key)
  /-- `registry[k] = cls` -/
  | setKey (k : Key) (cls : Nat)
  /-- create an iterator over `registry.items()` / `.values()`; remembers the current size -/
  | iterBegin (it : Nat)
  /-- `next(it)`: RuntimeError if the size differs from the remembered one, else item or stop -/
  | iterNext (it : Nat)
  /-- `k in registry` -/
  | contains (k : Key)
  /-- `registry[k]` -/
  | getKey (k : Key)
  /-- `list(registry.keys())` -/
  | snapshot
  /-- `del registry[k]` -/
  | delKey (k : Key)
  /-- read the attribute `self._fixed_plugin_cache`; the result says whether it is a dict -/
  | cacheRead
  /-- `self._fixed_plugin_cache = None` (false) or `= {h: {}}` (true) -/
  | cacheWrite (isDict : Bool)
deriving DecidableEq, Repr

/-- observable result of an access -/
inductive Res where
  | unit
  | bool (b : Bool)
  | cls (c : Option Nat)
  | item (k : Key)
  | stop
  | keys (l : List Key)
  | err (e : Err)
  /-- the model does not predict this access (iterator over a dict that received a new key since
  the iterator was created and has its old size again: CPython's answer depends on the slot
  layout of the dict — item, stop, or `RuntimeError: dictionary keys changed during iteration`) -/
  | unspecified
deriving DecidableEq, Repr

/-- a live dict iterator -/
structure Iter where
  id : Nat
  size : Nat        -- `di_used`: number of keys when it was created
  pos : Nat
  inserts : Nat     -- value of `Shared.inserts` when it was created
deriving DecidableEq, Repr

abbrev Iters := List Iter

def itersGet (its : Iters) (it : Nat) : Option Iter := its.find? (·.id == it)
def itersDrop (its : Iters) (it : Nat) : Iters := its.filter (·.id != it)
def itersSet (its : Iters) (i : Iter) : Iters := i :: itersDrop its i.id

/-- semantics of one access (CPython dict: insertion ordered; iterators compare the dict's size
with the size at creation on every `next`, including the one that would stop) -/
def applyAct (s : Shared) (its : Iters) : Act → Shared × Iters × Res
  | .lookup k => (s, its, .cls (regLookup s.reg k))
  | .setKey k cls =>
    ({ s with reg := regSet k cls s.reg,
              inserts := if k ∈ regKeys s.reg then s.inserts else s.inserts + 1 }, its, .unit)
  | .iterBegin it => (s, itersSet its ⟨it, s.reg.length, 0, s.inserts⟩, .unit)
  | .iterNext it =>
    match itersGet its it with
    | none => (s, its, .stop)            -- exhausted iterators stay exhausted
    | some i =>
      if s.reg.length ≠ i.size then (s, itersDrop its it, .err .runtimeError)
      else match (regKeys s.reg)[i.pos]? with
        | some k => (s, itersSet its { i with pos := i.pos + 1 }, .item k)
        | none => (s, itersDrop its it, .stop)
  | .contains k => (s, its, .bool (decide (k ∈ regKeys s.reg)))
  | .getKey k => (s, its, if k ∈ regKeys s.reg then .unit else .err .keyError)
  | .snapshot => (s, its, .keys (regKeys s.reg))
  | .delKey k =>
    if k ∈ regKeys s.reg then ({ s with reg := regDel k s.reg }, its, .unit)
    else (s, its, .err .keyError)
  | .cacheRead => (s, its, .bool s.cacheSet)
  | .cacheWrite b => ({ s with cacheSet := b }, its, .unit)

/-- is the answer of `next(it)` outside what the list model of the dict predicts? -/
def iterTainted (s : Shared) (its : Iters) (it : Nat) : Bool :=
  match itersGet its it with
  | none => false
  | some i => s.reg.length == i.size && s.inserts != i.inserts

/-- replay a recorded trace of accesses (iterator ids are globally unique, so thread identity is
irrelevant for the semantics); returns the result of every access.  After an unspecified `next`
the iterator is dropped (the harness does not record its further answers). -/
def replay : Shared → Iters → List Act → List Res
  | _, _, [] => []
  | s, its, a :: rest =>
    match a with
    | .iterNext it =>
      if iterTainted s its it then .unspecified :: replay s (itersDrop its it) rest
      else
        let (s', its', r) := applyAct s its a
        r :: replay s' its' rest
    | _ =>
      let (s', its', r) := applyAct s its a
      r :: replay s' its' rest

def finalShared : Shared → Iters → List Act → Shared
  | s, _, [] => s
  | s, its, a :: rest =>
    let (s', its', _) := applyAct s its a
    finalShared s' its' rest

/-! ### thread programs -/

/-- the steps of one worker's `get_iter` that touch the shared registry -/
inductive Instr where
  /-- `self.register(p)` with `p` a fresh class named `_temp_k` -/
  | registerTemp (k : Nat)
  /-- `_context_hash()` (also stands for the other full iterations of the registry) -/
  | contextHash
  /-- `__get_plugin`: `if name not in registry: raise KeyError` then `registry[name]()`, and the
  later `registry[name]` look-ups of `get_components` -/
  | resolve (k : Nat)
  /-- `_plugins_are_cached` / `_plugins_to_cache`: `if cache is None: …` then `cache[h]` -/
  | cacheLookup
  /-- `for k in list(registry.keys()): if k.startswith("_temp"): del registry[k]` -/
  | deleteAllTemp
  -- finer-grained instructions, used when a program is read off a real run (tie `registry/program`)
  /-- a bare `registry[_temp_k]` (get_components, is_stored, stored_dependencies): KeyError if absent -/
  | lookupTemp (k : Nat)
  /-- the same look-up inside `_make_progress_bar`'s `try … except KeyError`: never fails -/
  | tryLookupTemp (k : Nat)
  /-- `self._fixed_plugin_cache is None` -/
  | cacheTest
  /-- `h in self._fixed_plugin_cache` / `self._fixed_plugin_cache[h]`: TypeError if it is `None` -/
  | cacheUse
  /-- `self._fixed_plugin_cache = {h: dict()}`: a new, empty inner dict -/
  | cacheInit
  /-- `for target, plugin in cached_plugins.items()` on inner dict `d` -/
  | innerIter (d : Nat)
  /-- `self._fixed_plugin_cache[h][target] = plugin` on inner dict `d` -/
  | innerSet (d : Nat) (key : Key)
  /-- `plugins[target]` on inner dict `d`: KeyError if absent -/
  | innerGet (d : Nat) (key : Key)
deriving DecidableEq, Repr

/-- where a thread is inside its current instruction -/
inductive Micro where
  | idle
  | hashing                      -- iterator created, `next` calls outstanding
  | resolving (k : Nat)          -- membership test passed, subscript outstanding
  | cacheChecked                 -- `is None` test passed (it was a dict), subscript outstanding
  | deleting (todo : List Key)   -- snapshot taken, keys still to examine
  | registering (reset : Bool)   -- `old = registry.get(name)` done; `reset`: a different class was there
  | innerHashing (d : Nat)       -- iterating inner dict `d`
deriving DecidableEq, Repr

structure Thread where
  /-- thread index: identity of its iterator and of the temp class it registers -/
  tid : Nat
  prog : List Instr
  micro : Micro
  failed : Option Err
deriving DecidableEq, Repr

def Thread.mk' (tid : Nat) (prog : List Instr) : Thread := ⟨tid, prog, .idle, none⟩

def Thread.done (t : Thread) : Bool := t.failed.isNone && t.prog.isEmpty

structure Sys where
  shared : Shared
  iters : Iters
  threads : List Thread
deriving DecidableEq, Repr

/-- one atomic step of thread `t` (no-op when it has finished or failed) -/
def stepThread (s : Shared) (its : Iters) (t : Thread) : Shared × Iters × Thread :=
  if t.failed.isSome then (s, its, t) else
  match t.micro, t.prog with
  | _, [] => (s, its, t)
  -- `Context.register(p)`, three source lines: `old = registry.get(name)`; a *different* class under
  -- that name invalidates the plugin cache (`_fixed_plugin_cache = None`); `registry[name] = p`
  | .idle, .registerTemp k :: _ =>
    match applyAct s its (.lookup (.temp k)) with
    | (s', its', .cls (some old)) => (s', its', { t with micro := .registering (old != t.tid) })
    | (s', its', _) => (s', its', { t with micro := .registering false })
  | .registering true, _ :: _ =>
    let (s', its', _) := applyAct s its (.cacheWrite false)
    (s', its', { t with micro := .registering false })
  | .registering false, .registerTemp k :: rest =>
    let (s', its', _) := applyAct s its (.setKey (.temp k) t.tid)
    (s', its', { t with micro := .idle, prog := rest })
  | .registering false, _ :: _ => (s, its, { t with failed := some .other })
  | .idle, .contextHash :: _ =>
    let (s', its', _) := applyAct s its (.iterBegin t.tid)
    (s', its', { t with micro := .hashing })
  | .hashing, _ :: rest =>
    match applyAct s its (.iterNext t.tid) with
    | (s', its', .err e) => (s', its', { t with failed := some e })
    | (s', its', .stop) => (s', its', { t with micro := .idle, prog := rest })
    | (s', its', _) => (s', its', t)
  | .idle, .resolve k :: _ =>
    match applyAct s its (.contains (.temp k)) with
    | (s', its', .bool true) => (s', its', { t with micro := .resolving k })
    | (s', its', _) => (s', its', { t with failed := some .keyError })
  | .resolving k, _ :: rest =>
    match applyAct s its (.getKey (.temp k)) with
    | (s', its', .err e) => (s', its', { t with failed := some e })
    | (s', its', _) => (s', its', { t with micro := .idle, prog := rest })
  | .idle, .cacheLookup :: rest =>
    match applyAct s its .cacheRead with
    | (s', its', .bool true) => (s', its', { t with micro := .cacheChecked })
    | (s', its', _) =>
      -- `if self._fixed_plugin_cache is None: self._fixed_plugin_cache = {h: dict()}`
      let (s'', its'', _) := applyAct s' its' (.cacheWrite true)
      (s'', its'', { t with prog := rest })
  | .cacheChecked, _ :: rest =>
    -- `h not in self._fixed_plugin_cache` / `self._fixed_plugin_cache[h]`
    match applyAct s its .cacheRead with
    | (s', its', .bool true) => (s', its', { t with micro := .idle, prog := rest })
    | (s', its', _) => (s', its', { t with failed := some .typeError })
  | .idle, .deleteAllTemp :: _ =>
    match applyAct s its .snapshot with
    | (s', its', .keys l) => (s', its', { t with micro := .deleting (l.filter Key.isTemp) })
    | (s', its', _) => (s', its', t)
  | .deleting [], _ :: rest => (s, its, { t with micro := .idle, prog := rest })
  | .deleting (k :: todo), _ :: _ =>
    match applyAct s its (.delKey k) with
    | (s', its', .err e) => (s', its', { t with failed := some e })
    | (s', its', _) => (s', its', { t with micro := .deleting todo })
  | .idle, .lookupTemp k :: rest =>
    match applyAct s its (.getKey (.temp k)) with
    | (s', its', .err e) => (s', its', { t with failed := some e })
    | (s', its', _) => (s', its', { t with prog := rest })
  | .idle, .tryLookupTemp _ :: rest => (s, its, { t with prog := rest })
  | .idle, .cacheTest :: rest => (s, its, { t with prog := rest })
  | .idle, .cacheUse :: rest =>
    match applyAct s its .cacheRead with
    | (s', its', .bool true) => (s', its', { t with prog := rest })
    | (s', its', _) => (s', its', { t with failed := some .typeError })
  | .idle, .cacheInit :: rest =>
    ({ s with cacheSet := true, inner := s.inner ++ [[]] }, its, { t with prog := rest })
  | .idle, .innerIter d :: _ =>
    match s.inner[d]? with
    | none => (s, its, { t with failed := some .other })
    | some l => (s, itersSet its ⟨t.tid, l.length, 0, 0⟩, { t with micro := .innerHashing d })
  | .innerHashing d, _ :: rest =>
    match s.inner[d]?, itersGet its t.tid with
    | some l, some i =>
      if l.length ≠ i.size then (s, itersDrop its t.tid, { t with failed := some .runtimeError })
      else if i.pos < l.length then (s, itersSet its { i with pos := i.pos + 1 }, t)
      else (s, itersDrop its t.tid, { t with micro := .idle, prog := rest })
    | _, _ => (s, its, { t with failed := some .other })
  | .idle, .innerSet d key :: rest =>
    match s.inner[d]? with
    | none => (s, its, { t with failed := some .other })
    | some l => ({ s with inner := s.inner.set d (if key ∈ l then l else l ++ [key]) }, its, { t with prog := rest })
  | .idle, .innerGet d key :: rest =>
    match s.inner[d]? with
    | none => (s, its, { t with failed := some .other })
    | some l => if key ∈ l then (s, its, { t with prog := rest }) else (s, its, { t with failed := some .keyError })

/-- thread `i` makes one step -/
def Sys.step (sys : Sys) (i : Nat) : Sys :=
  match sys.threads[i]? with
  | none => sys
  | some t =>
    let (s', its', t') := stepThread sys.shared sys.iters t
    { shared := s', iters := its', threads := sys.threads.set i t' }

/-- run a schedule (list of thread indices) -/
def Sys.run (sys : Sys) (schedule : List Nat) : Sys := schedule.foldl Sys.step sys

/-- run thread `t` alone until it finishes or fails (`fuel` steps at most) -/
def runAlone : Nat → Shared → Iters → Thread → Shared × Iters × Thread
  | 0, s, its, t => (s, its, t)
  | fuel + 1, s, its, t =>
    if t.failed.isSome || t.prog.isEmpty then (s, its, t) else
    let (s', its', t') := stepThread s its t
    runAlone fuel s' its' t'

/-- number of atomic steps a program needs at most when the registry has `n` keys (plus one temp) -/
def progFuel (n : Nat) (prog : List Instr) : Nat := prog.length * (n + 4)

/-- the lock-style fix: thread `i` runs its whole remaining program as one atomic block -/
def Sys.stepBlock (sys : Sys) (i : Nat) : Sys :=
  match sys.threads[i]? with
  | none => sys
  | some t =>
    let (s', its', t') := runAlone (progFuel sys.shared.reg.length t.prog) sys.shared sys.iters t
    { shared := s', iters := its', threads := sys.threads.set i t' }

def Sys.runBlocks (sys : Sys) (schedule : List Nat) : Sys := schedule.foldl Sys.stepBlock sys

/-- The program of one worker (`get_iter` with several same-kind targets, cold plugin cache) in the
order in which the real code touches the shared state: `_get_plugins` hashes the context, the temp
plugin is registered, `register` iterates the registry, `get_components` subscripts the temp name,
`__get_plugin` consults the plugin cache and — the temp plugin not being cached — resolves the name
in the registry, the clean-up loop deletes every `_temp*` key, `key_for` hashes again.  With a warm
cache the `resolve` step is absent.  The check compares this order with the events of real workers
(`registry/program`, program-shape). -/
def workerProg (k : Nat) : List Instr :=
  [.contextHash, .registerTemp k, .contextHash, .lookupTemp k, .cacheLookup, .resolve k, .deleteAllTemp,
   .contextHash]

/-- the block that the lock-style fix makes atomic -/
def lockedProg (k : Nat) : List Instr := [.registerTemp k, .resolve k, .deleteAllTemp, .contextHash]

/-- context with `n` registered plugins and no temp plugin -/
def baseRegistry (n : Nat) : Registry := (List.range n).map fun i => (.plugin i, 1000 + i)

/-- `inner`: key sets of the inner plugin-cache dicts that exist at the start (warm cache) -/
def Sys.initWith (nPlugins : Nat) (cacheSet : Bool) (inner : List (List Key)) (progs : List (List Instr)) : Sys :=
  { shared := ⟨baseRegistry nPlugins, cacheSet, 0, inner⟩, iters := [],
    threads := progs.zipIdx.map fun (p, i) => Thread.mk' i p }

def Sys.init (nPlugins : Nat) (cacheSet : Bool) (progs : List (List Instr)) : Sys :=
  Sys.initWith nPlugins cacheSet [] progs

/-- instructions that only read the shared state, and cannot fail, on a context without temp plugins
whose plugin cache is set and whose inner cache dicts are `inner` (the clean-up loop is included: with
no `_temp*` key registered it deletes nothing) -/
def Instr.readOnly (inner : List (List Key)) : Instr → Bool
  | .contextHash => true
  | .cacheTest => true
  | .cacheUse => true
  | .tryLookupTemp _ => true
  | .deleteAllTemp => true
  | .innerIter d => decide (d < inner.length)
  | .innerGet d key => match inner[d]? with
    | some l => decide (key ∈ l)
    | none => false
  | _ => false

def Sys.failures (sys : Sys) : List (Nat × Err) :=
  sys.threads.filterMap fun t => t.failed.map fun e => (t.tid, e)

def Sys.allDone (sys : Sys) : Bool := sys.threads.all Thread.done

end Strax.MultiRun
