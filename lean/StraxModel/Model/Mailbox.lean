import StraxModel.Model.Basic
/-
  T6 — labelled transition system of ONE `strax.Mailbox` (strax/mailbox.py) with its sender thread, its
  subscriber threads, worker threads completing futures and "killer" threads calling `Mailbox.kill`.

  Granularity (action table in notes/C05.md, as realised by checks/lib/sched.py): one action = everything a thread
  does between two yield points of the cooperative scheduler.  Yield points are: the outermost acquire of
  the mailbox lock, `Condition.wait` (the thread is then *blocked* until a `notify_all` set its flag),
  `Future.result` on a future that is not done, and the harness yield point inside the source iterator
  (`fetch`).  The lock is never held at a yield point (a wait releases it completely, also through the
  re-entrant `close -> send`), so the lock itself needs no state.

  Waiting is modelled with explicit notification flags stored in the mailbox (`none` = not waiting,
  `some false` = blocked, `some true` = notified, will re-evaluate its predicate when scheduled): a blocked
  thread has NO transition, so a missing `notify_all` is a deadlock of the model, not hidden by a guard.
  Timeouts are not transitions: the harness delivers them only after it has recorded a deadlock.

  Deviations from the text of the code, all extensionally equal on the observables:
  * `have_read[i]` and the generator-local `next_number` are one field `subs[i].next = have_read[i] + 1`
    (they are assigned together); the driver prints `next - 1`.  The three per-subscriber lists of the
    code are one list of records `subs`.
  * the heap is a list in insertion order; garbage collection `while heap and min(have_read) >= lowest: pop`
    is `filter (minNext ≤ number)`; `x <= lowest` is `∀ e ∈ heap, x ≤ e.number`.
  * message payloads are naturals; `StopIteration` (sent by `close`) is the message `stop`; the ghost log
    `got` keeps the delivered messages themselves (a delivered future stands for its result).
  One sender per mailbox (as everywhere in strax), so the number resolved when a `send` starts waiting
  is kept in the program counter.
-/
namespace Strax.Mailbox
open Strax

/-- a message: plain value, future `id` whose result will be `v`, or the end marker sent by `close` -/
inductive Msg where
  | plain (v : Nat)
  | fut (id : Nat) (v : Nat)
  | stop
deriving Repr, DecidableEq, Inhabited

/-- which "somebody has not woken up yet" test `_can_fetch` uses -/
inductive GateRule where
  | lowest    -- the code before fb45a02 (defect D6): `len(heap) and any(x is not None and x <= lowest for x in waiting_for)`
  | hasMsg    -- the code today: `any(x is not None and self._has_msg(x) for x in waiting_for)`
deriving Repr, DecidableEq

/-- the per-subscriber entries of `_subscribers_have_read`, `_subscriber_waiting_for`,
`_subscriber_can_drive`, plus the subscriber's waiter flag on `_read_condition` -/
structure Sub where
  next : Nat                  -- `have_read + 1` = the generator's `next_number`
  waitingFor : Option Nat
  canDrive : Bool
  flag : Option Bool          -- none = not waiting, some false = blocked, some true = notified
deriving Repr, DecidableEq

structure MB where
  cap : Option Nat                  -- `max_messages`; none = infinite (stand-alone lazy mailbox)
  lazy : Bool
  gateRule : GateRule
  heap : List (Nat × Msg)           -- `_mailbox`
  subs : List Sub
  nSent : Nat
  closed : Bool
  killed : Bool
  forceKilled : Bool
  writeFlag : Option Bool           -- the sender waiting on `_write_condition`
  fetchFlag : Option Bool           -- the sender waiting on `_fetch_new_condition`
deriving Repr, DecidableEq

/-- `min(have_read) + 1`, 0 without subscribers (`start` refuses such mailboxes) -/
def minNext : List Sub → Nat
  | [] => 0
  | [a] => a.next
  | a :: b :: r => min a.next (minNext (b :: r))

def hasNum (heap : List (Nat × Msg)) (n : Nat) : Bool := heap.any (fun e => e.1 == n)

/-- `_get_msg`: first entry with that number -/
def getMsg : List (Nat × Msg) → Nat → Option Msg
  | [], _ => none
  | e :: r, n => if e.1 = n then some e.2 else getMsg r n

/-- the inner loop of `_read`: messages `n, n+1, …` as long as they are present (fuel = heap size) -/
def collect (heap : List (Nat × Msg)) : Nat → Nat → List Msg
  | 0, _ => []
  | fuel + 1, n =>
    match getMsg heap n with
    | some m => m :: collect heap fuel (n + 1)
    | none => []

/-- garbage collection after a read: drop everything every subscriber has read -/
def gc (heap : List (Nat × Msg)) (subs : List Sub) : List (Nat × Msg) :=
  heap.filter (fun e => decide (minNext subs ≤ e.1))

def MB.canWrite (mb : MB) : Bool :=
  (match mb.cap with
   | none => true
   | some c => decide (mb.heap.length < c)) || mb.killed

/-- is a subscriber with this `waiting_for` entry one that "has not woken up yet"? -/
def staleTest (rule : GateRule) (heap : List (Nat × Msg)) : Option Nat → Bool
  | none => false
  | some x =>
    match rule with
    | .lowest => !heap.isEmpty && heap.all (fun e => decide (x ≤ e.1))   -- `len(heap) and x <= lowest`
    | .hasMsg => hasNum heap x                                           -- `self._has_msg(x)`

/-- first clause of `_can_fetch`: somebody has been sent what he waits for but has not woken up yet -/
def MB.staleWaiter (mb : MB) : Bool :=
  mb.subs.any (fun sub => staleTest mb.gateRule mb.heap sub.waitingFor)

/-- second clause of `_can_fetch`: some driving subscriber waits -/
def MB.driverWaits (mb : MB) : Bool := mb.subs.any (fun sub => sub.canDrive && sub.waitingFor.isSome)

def MB.canFetch (mb : MB) : Bool :=
  if mb.killed then true
  else if mb.staleWaiter then false
  else mb.driverWaits

def notifyFlag : Option Bool → Option Bool
  | none => none
  | some _ => some true

def Sub.notify (sub : Sub) : Sub := { sub with flag := notifyFlag sub.flag }

def MB.notifyRead (mb : MB) : MB := { mb with subs := mb.subs.map Sub.notify }
def MB.notifyWrite (mb : MB) : MB := { mb with writeFlag := notifyFlag mb.writeFlag }
def MB.notifyFetch (mb : MB) : MB := { mb with fetchFlag := notifyFlag mb.fetchFlag }
/-- `if self.lazy and self._can_fetch(): self._fetch_new_condition.notify_all()` -/
def MB.notifyFetchIfCan (mb : MB) : MB := if mb.lazy && mb.canFetch then mb.notifyFetch else mb

/-- `kill(upstream, reason)` -/
def MB.kill (mb : MB) (upstream : Bool) : MB :=
  let mb1 : MB := if upstream then { mb with forceKilled := true } else mb
  if mb1.killed then mb1
  else (({ mb1 with killed := true } : MB).notifyRead.notifyWrite.notifyFetch)

/-- the fetch gate of `_send_from` / `divide_outputs` (lazy only).  `true` = go on to `next(iterable)`. -/
def MB.gateStep (mb : MB) : Option (Bool × MB) :=
  match mb.fetchFlag with
  | some false => none
  | _ =>
    if mb.canFetch then some (true, { mb with fetchFlag := none })
    else some (false, { mb with fetchFlag := some false })

inductive SendOut where
  | sent (n : Nat)
  | dropped
  | waiting (n : Nat)
  | raised (e : Err)
deriving Repr, DecidableEq

def MB.push (mb : MB) (n : Nat) (m : Msg) : MB :=
  ({ mb with heap := mb.heap ++ [(n, m)], nSent := mb.nSent + 1, writeFlag := none } : MB).notifyRead

/-- one critical section of `send` once the message number is resolved: entered (`writeFlag = none`) or
resumed after a notification (`writeFlag = some true`); blocked (`some false`) has no transition. -/
def MB.sendCore (mb : MB) (n : Nat) (m : Msg) : Option (SendOut × MB) :=
  match mb.writeFlag with
  | some false => none
  | none =>
    if mb.closed then some (.raised .mailboxAlreadyClosed, mb)
    else if mb.forceKilled then some (.raised .mailboxKilled, mb)
    else if mb.killed then some (.dropped, mb)
    else if n < minNext mb.subs then some (.raised .invalidMessageNumber, mb)
    else if mb.canWrite then some (.sent n, mb.push n m)
    else some (.waiting n, { mb with writeFlag := some false })
  | some true =>
    if !mb.canWrite then some (.waiting n, { mb with writeFlag := some false })
    else if mb.killed then
      if mb.forceKilled then some (.raised .mailboxKilled, { mb with writeFlag := none })
      else some (.dropped, { mb with writeFlag := none })
    else some (.sent n, mb.push n m)

/-- `if msg_number is None: msg_number = self._n_sent` -/
def resolveNum : Option Nat → Nat → Nat
  | some n, _ => n
  | none, d => d

/-- `send(msg, msg_number)` -/
def MB.sendStep (mb : MB) (num : Option Nat) (m : Msg) : Option (SendOut × MB) :=
  mb.sendCore (resolveNum num mb.nSent) m

inductive ReadOut where
  | waiting
  | killed
  | took (msgs : List Msg)
deriving Repr, DecidableEq

/-- `_read`, message not there yet: `waiting_for[i] = next_number`; `if lazy and can_fetch: notify`; wait.
(`_can_fetch` does not look at waiter flags, so registering the waiter first is the same thing.) -/
def MB.readWaitEnter (mb : MB) (i : Nat) (sub : Sub) : MB :=
  ({ mb with subs := mb.subs.set i { sub with waitingFor := some sub.next, flag := some false } } : MB).notifyFetchIfCan

/-- `_read`, notified but the predicate is still false: wait again -/
def MB.readWaitAgain (mb : MB) (i : Nat) (sub : Sub) : MB :=
  { mb with subs := mb.subs.set i { sub with flag := some false } }

/-- `_read` finds the mailbox killed: `waiting_for[i] = None`, raise `MailboxKilled` -/
def MB.readKilled (mb : MB) (i : Nat) (sub : Sub) : MB :=
  { mb with subs := mb.subs.set i { sub with waitingFor := none, flag := none } }

/-- `_read` takes `msgs`: progress, garbage collection, the two notifications -/
def MB.readTake (mb : MB) (i : Nat) (sub : Sub) (msgs : List Msg) : MB :=
  let subs' := mb.subs.set i { sub with next := sub.next + msgs.length, waitingFor := none, flag := none }
  ({ mb with subs := subs', heap := gc mb.heap subs' } : MB).notifyFetchIfCan.notifyWrite

/-- one critical section of `_read` for subscriber `i` -/
def MB.readStep (mb : MB) (i : Nat) : Option (ReadOut × MB) :=
  match mb.subs[i]? with
  | none => none
  | some sub =>
    match sub.flag with
    | some false => none
    | flag =>
      if !(hasNum mb.heap sub.next || mb.killed) then
        match flag with
        | none => some (.waiting, mb.readWaitEnter i sub)
        | some _ => some (.waiting, mb.readWaitAgain i sub)
      else if mb.killed then some (.killed, mb.readKilled i sub)
      else
        let msgs := collect mb.heap mb.heap.length sub.next
        some (.took msgs, mb.readTake i sub msgs)

/-! ### threads -/

/-- what the source iterator does at one `next()` -/
inductive SrcItem where
  | item (num : Option Nat) (m : Msg)   -- `num = none`: `_send_from` numbering (`_n_sent`)
  | raise                               -- the source raises
deriving Repr, DecidableEq

inductive SPc where
  | gate
  | fetch
  | send (num : Option Nat) (m : Msg)
  | close
  | exc (e : Err)
  | done
  | dead (e : Err)
deriving Repr, DecidableEq

inductive RPc where
  | read
  | futW (pending : List Msg)      -- in `Future.result` of the head of `pending`
  | done (rest : List Msg)         -- saw the end marker; `rest` = what was collected after it (never delivered)
  | dead (e : Err)
deriving Repr, DecidableEq

structure Reader where
  pc : RPc
  got : List Msg                   -- ghost: messages handed to the consumer (a future counts as its result)
deriving Repr, DecidableEq

inductive ThreadId where
  | sender
  | reader (i : Nat)
  | worker (j : Nat)
  | killer (k : Nat)
deriving Repr, DecidableEq

structure Sys where
  mb : MB
  prog : List SrcItem              -- what the source will still produce
  spc : SPc
  readers : List Reader
  sent : List (Nat × Msg)          -- ghost: everything ever pushed, in push order
  futDone : List Nat               -- futures whose result is set
  workers : List (List Nat)        -- per worker: futures it still has to complete, in order
  killers : List (Option Bool)     -- per killer: `some upstream` = still to call `kill(upstream)`
deriving Repr, DecidableEq

/-- hand collected messages to the consumer until the end marker or a future that is not done -/
def deliver (futDone : List Nat) : List Msg → List Msg → Reader
  | [], g => ⟨.read, g⟩
  | .stop :: r, g => ⟨.done r, g⟩
  | .plain v :: r, g => deliver futDone r (g ++ [.plain v])
  | .fut id v :: r, g =>
    if futDone.contains id then deliver futDone r (g ++ [.fut id v]) else ⟨.futW (.fut id v :: r), g⟩

def Sys.afterSend (s : Sys) : SPc := if s.mb.lazy then .gate else .fetch

def stepSender (s : Sys) : Option Sys :=
  match s.spc with
  | .gate =>
    match s.mb.gateStep with
    | none => none
    | some (ok, mb) => some { s with mb := mb, spc := if ok then .fetch else .gate }
  | .fetch =>
    match s.prog with
    | [] => some { s with spc := .close }
    | .item num m :: rest => some { s with prog := rest, spc := .send num m }
    | .raise :: rest => some { s with prog := rest, spc := .exc .valueError }
  | .send num m =>
    match s.mb.sendStep num m with
    | none => none
    | some (.sent n, mb) => some { s with mb := mb, sent := s.sent ++ [(n, m)], spc := s.afterSend }
    | some (.dropped, mb) => some { s with mb := mb, spc := s.afterSend }
    | some (.waiting n, mb) => some { s with mb := mb, spc := .send (some n) m }
    | some (.raised e, mb) => some { s with mb := mb, spc := .exc e }
  | .close =>
    match s.mb.sendStep none .stop with
    | none => none
    | some (.sent n, mb) => some { s with mb := { mb with closed := true }, sent := s.sent ++ [(n, .stop)], spc := .done }
    | some (.dropped, mb) => some { s with mb := { mb with closed := true }, spc := .done }
    | some (.waiting _, mb) => some { s with mb := mb }
    | some (.raised e, mb) => some { s with mb := mb, spc := .dead e }
  | .exc e =>
    some { s with mb := s.mb.kill true, spc := if e = .mailboxKilled then .done else .dead e }
  | .done => none
  | .dead _ => none

def stepReader (s : Sys) (i : Nat) : Option Sys :=
  match s.readers[i]? with
  | none => none
  | some r =>
    match r.pc with
    | .read =>
      match s.mb.readStep i with
      | none => none
      | some (.waiting, mb) => some { s with mb := mb }
      | some (.killed, mb) => some { s with mb := mb, readers := s.readers.set i { r with pc := .dead .mailboxKilled } }
      | some (.took msgs, mb) => some { s with mb := mb, readers := s.readers.set i (deliver s.futDone msgs r.got) }
    | .futW pend =>
      match pend with
      | .fut id _ :: _ =>
        if s.futDone.contains id then some { s with readers := s.readers.set i (deliver s.futDone pend r.got) }
        else none
      | _ => none
    | .done _ => none
    | .dead _ => none

def stepWorker (s : Sys) (j : Nat) : Option Sys :=
  match s.workers[j]? with
  | some (id :: rest) => some { s with futDone := id :: s.futDone, workers := s.workers.set j rest }
  | _ => none

def stepKiller (s : Sys) (k : Nat) : Option Sys :=
  match s.killers[k]? with
  | some (some up) => some { s with mb := s.mb.kill up, killers := s.killers.set k none }
  | _ => none

/-- the transition system: `none` = thread not enabled (blocked, finished or non-existent) -/
def step (s : Sys) : ThreadId → Option Sys
  | .sender => stepSender s
  | .reader i => stepReader s i
  | .worker j => stepWorker s j
  | .killer k => stepKiller s k

/-! ### configurations, runs, reachability -/

structure Config where
  cap : Option Nat
  lazy : Bool
  gateRule : GateRule
  drive : List Bool                -- one entry per subscriber
  prog : List SrcItem
  workers : List (List Nat)
  killers : List Bool
deriving Repr, DecidableEq

def init (c : Config) : Sys :=
  { mb := { cap := c.cap, lazy := c.lazy, gateRule := c.gateRule, heap := [],
            subs := c.drive.map fun d => { next := 0, waitingFor := none, canDrive := d, flag := none },
            nSent := 0, closed := false, killed := false, forceKilled := false,
            writeFlag := none, fetchFlag := none },
    prog := c.prog,
    spc := if c.lazy then .gate else .fetch,
    readers := c.drive.map fun _ => { pc := .read, got := [] },
    sent := [],
    futDone := [],
    workers := c.workers,
    killers := c.killers.map some }

inductive Reachable (c : Config) : Sys → Prop
  | init : Reachable c (init c)
  | step {s s' : Sys} {t : ThreadId} : Reachable c s → step s t = some s' → Reachable c s'

/-- run a schedule; stops (returning the index) at the first thread that is not enabled -/
def run (s : Sys) : List ThreadId → Sys
  | [] => s
  | t :: ts =>
    match step s t with
    | some s' => run s' ts
    | none => s

/-- strict variant: `none` if some scheduled thread was not enabled -/
def run? (s : Sys) : List ThreadId → Option Sys
  | [] => some s
  | t :: ts =>
    match step s t with
    | some s' => run? s' ts
    | none => none

def Sys.threads (s : Sys) : List ThreadId :=
  [.sender] ++ (List.range s.readers.length).map .reader ++ (List.range s.workers.length).map .worker
    ++ (List.range s.killers.length).map .killer

def Sys.enabled (s : Sys) : List ThreadId := s.threads.filter (fun t => (step s t).isSome)

def SPc.finished : SPc → Bool
  | .done => true
  | .dead _ => true
  | _ => false

def RPc.finished : RPc → Bool
  | .done _ => true
  | .dead _ => true
  | _ => false

/-- every thread has ended -/
def Sys.final (s : Sys) : Bool :=
  s.spc.finished && s.readers.all (fun r => r.pc.finished) && s.workers.all List.isEmpty && s.killers.all Option.isNone

end Strax.Mailbox
