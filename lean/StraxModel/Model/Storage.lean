import StraxModel.Model.Rechunk
/-
  Theory T9 (fault-free part): the saver / loader protocol of `strax/storage/common.py`
  (`Saver.save_from / save / close`, `StorageBackend.loader / _read_and_format_chunk`) and of
  `strax/storage/files.py` (`FileSaver._chunk_filename / _save_chunk / _save_chunk_metadata`,
  `FileSytemBackend._read_chunk`) at the level "metadata + files as a map".  No faults, no
  directories, no temp names: that is Model/FS.lean (C04).  Compressors are the identity on rows.

  What is mirrored (odd corners included):
  * an empty chunk gets a chunk_info entry but no file and no `filename` / first/last fields;
  * `chunk_i` counts the chunks that come OUT of the rechunker, one per `save`;
  * `md["start"]` is set by the chunk with `chunk_i == 0` and again by `close` from `chunks[0]`,
    `md["end"]` only by `close` from `chunks[-1]`; with no chunk at all neither is set;
  * `close` always sets `writing_ended`, and records `exception` iff it runs while an exception
    propagates (the `finally` of `save_from`);
  * the metadata json is written with `sort_keys=True`: a `subruns` dict comes back ordered by
    run id, and the `Chunk` constructor then re-sorts it (stably) by (start, end);
  * loader: `n == 0` ⇒ no file is opened; missing `filename` ⇒ KeyError; missing file ⇒
    FileNotFoundError (an OSError); `len(data) != n` ⇒ DataCorrupted; `run_id` None ⇒ AttributeError
    (`Other`); super-run id without subruns ⇒ ValueError; then `Chunk.__init__` (`mkChunk`) with
    `data_type / data_kind / target_size_mb` taken from the metadata header and `superrun=None`;
  * an empty chunk list ⇒ ValueError ("it has no chunks");
  * byte sizes: `nbytes = len(chunk) * dtype.itemsize` in every chunk_info; the serial saver records
    `filesize` = number of bytes `save_file` wrote (`blobSize rows`, an uninterpreted positive
    function of the rows: the codec); with an executor `_save_chunk` returns only the file name, so no
    `filesize` is recorded;
  * executor: `executor.submit(strax.save_file, …)` makes the write *pending*; metadata is appended at
    once; before `close` every pending write has finished, in an order the model takes as a parameter
    (`completeWrites order`); thread-pool loading: one future per chunk info, resolved in chunk order.
-/
namespace Strax.Storage
open Strax

/-- the metadata a saver is created with (`Plugin.metadata`) plus the file-name prefix that
`FileSaver` derives from the directory name (`<data_type>-<lineage_hash>`). -/
structure Header where
  runId : String
  dataType : String
  kind : String
  /-- `chunk_target_size_mb`, expressed in rows like `Chunk.target` -/
  target : Nat
  pfx : String
  /-- `dtype.itemsize` of the saved rows (bytes per row) -/
  itemsize : Nat := 1
deriving Repr, DecidableEq, Inhabited

/-- one entry of `metadata["chunks"]` -/
structure ChunkInfo where
  i : Nat
  n : Nat
  start : Int
  stop : Int
  runId : Option String
  subruns : Option Runs
  firstTime : Option Int
  firstEnd : Option Int
  lastTime : Option Int
  lastEnd : Option Int
  filename : Option String
  /-- `chunk.nbytes` -/
  nbytes : Nat := 0
  /-- bytes written by `save_file`; only the serial saver knows it when the chunk_info is written -/
  filesize : Option Nat := none
deriving Repr, DecidableEq, Inhabited

structure Meta where
  hdr : Header
  chunks : List ChunkInfo
  start : Option Int
  stop : Option Int
  writingEnded : Bool
  exception : Bool
deriving Repr, DecidableEq, Inhabited

/-- the data directory: file name ↦ rows (insertion order kept, names unique) -/
abbrev Files := List (String × List Row)

def readFile (fs : Files) (fn : String) : Option (List Row) :=
  (fs.find? (fun p => p.1 == fn)).map (·.2)

/-- `open(fn, "wb")` + write + rename over the final name: replaces an existing file -/
def writeFile (fs : Files) (fn : String) (rows : List Row) : Files :=
  fs.filter (fun p => p.1 != fn) ++ [(fn, rows)]

/-- `"%06d" % i` -/
def pad6 (i : Nat) : String :=
  let d := Nat.repr i
  String.ofList (List.replicate (6 - d.length) '0') ++ d

/-- `FileSaver._chunk_filename`: `f"{prefix}-{chunk_i:06d}"` -/
def chunkFilename (pfx : String) (i : Nat) : String := pfx ++ "-" ++ pad6 i

/-- Size in bytes of the compressed file holding `rows`.  Codec-specific and deliberately
uninterpreted (`opaque`): nothing can be proved from its value, so every theorem holds for every
codec; the only fact kept is that a written file is never empty (all four codecs emit a header). -/
opaque blobSize : List Row → { n : Nat // 0 < n } := fun _ => ⟨1, Nat.one_pos⟩

/-! ### Saver -/

structure Saver where
  md : Meta
  files : Files
  closed : Bool
  /-- chunk writes go to an executor (`save_from(..., executor=pool)`) -/
  exec : Bool := false
  /-- writes submitted to the executor and not yet finished, in submission order -/
  pending : Files := []
deriving Repr, DecidableEq

/-- `Saver.__init__` + `FileSaver.__init__` (fresh temp directory) -/
def Saver.init (hdr : Header) (exec : Bool := false) : Saver :=
  { md := { hdr, chunks := [], start := none, stop := none, writingEnded := false, exception := false },
    files := [], closed := false, exec := exec, pending := [] }

/-- the `chunk_info` dict built by `Saver.save` before `_save_chunk` adds the file name -/
def chunkInfoOf (itemsize : Nat) (i : Nat) (c : Chunk) : ChunkInfo :=
  { i, n := c.rows.length, start := c.start, stop := c.stop, runId := c.runId, subruns := c.subruns,
    firstTime := c.rows.head?.map (·.time), firstEnd := c.rows.head?.map (·.endt),
    lastTime := c.rows.getLast?.map (·.time), lastEnd := c.rows.getLast?.map (·.endt),
    filename := none, nbytes := c.rows.length * itemsize, filesize := none }

/-- `Saver.save(chunk, chunk_i)` with `FileSaver._save_chunk` and `_save_chunk_metadata` (not forked). -/
def Saver.save (s : Saver) (c : Chunk) (i : Nat) : Except Err Saver :=
  if s.closed then throw Err.runtimeError
  else
    let info := chunkInfoOf s.md.hdr.itemsize i c
    let (info, files, pending) :=
      if c.rows.isEmpty then (info, s.files, s.pending)
      else
        let fn := chunkFilename s.md.hdr.pfx i
        if s.exec then
          -- `executor.submit(strax.save_file, fn, …)`: only the file name is known now
          ({ info with filename := some fn }, s.files, s.pending ++ [(fn, c.rows)])
        else
          ({ info with filename := some fn, filesize := some (blobSize c.rows).val },
           writeFile s.files fn c.rows, s.pending)
    -- `_save_chunk_metadata`: the first chunk sets md["start"]; append
    let md := if i = 0 then { s.md with start := some info.start } else s.md
    pure { s with md := { md with chunks := md.chunks ++ [info] }, files, pending }

/-- `Saver.close`; `exc` = "an exception is being handled while close runs". -/
def Saver.close (s : Saver) (exc : Bool) : Except Err Saver :=
  if s.closed then throw Err.runtimeError
  else
    let md := s.md
    let md := if exc then { md with exception := true } else md
    let md := match md.chunks.head?, md.chunks.getLast? with
      | some f, some l => { md with start := some f.start, stop := some l.stop }
      | _, _ => md
    pure { s with closed := true, md := { md with writingEnded := true } }

/-- the `for chunk in chunks:` loop of `save_from`; returns the state reached, the next `chunk_i`
and the exception that ended it, if any. -/
def saveList (sv : Saver) (i : Nat) : List Chunk → Saver × Nat × Option Err
  | [] => (sv, i, none)
  | c :: cs =>
    match sv.save c i with
    | .ok sv' => saveList sv' (i + 1) cs
    | .error e => (sv, i, some e)

/-- the `while not exhausted:` loop of `save_from` over the source (a list here). -/
def saveLoop (argmin0 : Int) (sv : Saver) (r : Rechunker) (i : Nat) : List Chunk → Saver × Option Err
  | [] =>
    let (sv, _, e) := saveList sv i r.flush.2
    (sv, e)
  | c :: cs =>
    match r.receive argmin0 c with
    | .error e => (sv, some e)
    | .ok (r', out) =>
      match saveList sv i out with
      | (sv', i', none) => saveLoop argmin0 sv' r' i' cs
      | (sv', _, some e) => (sv', some e)

/-- `Saver.save_from(source, rechunk)` (serial; the executor variants differ only in *when* a file
appears, which this fault-free model does not distinguish).  Returns the final saver state — what
is on disk afterwards — and the exception the caller sees, if any. -/
def saveFrom (argmin0 : Int) (rechunk : Bool) (hdr : Header) (src : List Chunk) : Saver × Option Err :=
  let (sv, e) := saveLoop argmin0 (Saver.init hdr) ⟨rechunk, hdr.runId.startsWith "_", none⟩ 0 src
  -- `finally: if not self.closed: self.close(...)`
  if sv.closed then (sv, e)
  else
    match sv.close e.isSome with
    | .ok sv' => (sv', e)
    | .error e' => (sv, some e')

/-- what a successful `save_from` leaves behind -/
def saveAll (argmin0 : Int) (rechunk : Bool) (hdr : Header) (src : List Chunk) : Except Err (Meta × Files) :=
  match saveFrom argmin0 rechunk hdr src with
  | (sv, none) => pure (sv.md, sv.files)
  | (_, some e) => throw e

/-- `wait(pending)`: every write submitted to the executor has finished; `order` lists the positions
of the pending writes in the order in which they complete (each goes to its own temp name and is
then renamed, so they do not interfere). -/
def completeWrites (order : List Nat) (sv : Saver) : Saver :=
  { sv with files := (order.filterMap (sv.pending[·]?)).foldl (fun fs p => writeFile fs p.1 p.2) sv.files,
            pending := [] }

/-- `save_from(source, rechunk, executor=pool)`: as `saveFrom`, but chunk files are written by the
pool and complete in the order `order` (a permutation of the pending writes) before `close`. -/
def saveFromExec (argmin0 : Int) (rechunk : Bool) (hdr : Header) (src : List Chunk) (order : List Nat) :
    Saver × Option Err :=
  let (sv, e) := saveLoop argmin0 (Saver.init hdr true) ⟨rechunk, hdr.runId.startsWith "_", none⟩ 0 src
  let sv := completeWrites order sv
  if sv.closed then (sv, e)
  else
    match sv.close e.isSome with
    | .ok sv' => (sv', e)
    | .error e' => (sv, some e')

def saveAllExec (argmin0 : Int) (rechunk : Bool) (hdr : Header) (src : List Chunk) (order : List Nat) :
    Except Err (Meta × Files) :=
  match saveFromExec argmin0 rechunk hdr src order with
  | (sv, none) => pure (sv.md, sv.files)
  | (_, some e) => throw e

/-! ### Loader -/

/-- a `subruns` dict after `json.dumps(..., sort_keys=True)` / `json.loads`: ordered by run id -/
def jsonRuns (rs : Runs) : Runs := rs.mergeSort (fun a b => decide (a.id ≤ b.id))

/-- `StorageBackend._read_and_format_chunk` (no time range) -/
def loadChunk (md : Meta) (files : Files) (info : ChunkInfo) : Except Err Chunk := do
  let data ←
    if info.n = 0 then pure []
    else
      match info.filename with
      | none => throw Err.keyError
      | some fn =>
        match readFile files fn with
        | none => throw Err.osError
        | some rows => pure rows
  if data.length ≠ info.n then throw Err.dataCorrupted
  let rid ← match info.runId with
    | none => throw Err.other                       -- `None.startswith` : AttributeError
    | some r => pure r
  let subruns := info.subruns.map jsonRuns
  if rid.startsWith "_" && subruns.isNone then throw Err.valueError
  mkChunk md.hdr.dataType md.hdr.kind (some rid) info.start info.stop data subruns none md.hdr.target

/-- `list(backend.loader(key))` -/
def loadAll (md : Meta) (files : Files) : Except Err (List Chunk) :=
  if md.chunks.isEmpty then throw Err.valueError
  else md.chunks.mapM (loadChunk md files)

/-- loader with an executor: one future per chunk info, submitted in chunk order … -/
def submitAll (md : Meta) (files : Files) : List (Except Err Chunk) :=
  md.chunks.map (loadChunk md files)

/-- … and resolved (`future.result()`) by the consumer in that order: the first failure in chunk
order is the one raised -/
def resolveInOrder : List (Except Err Chunk) → Except Err (List Chunk)
  | [] => pure []
  | f :: fs => do
    let c ← f
    let cs ← resolveInOrder fs
    pure (c :: cs)

def loadAllExec (md : Meta) (files : Files) : Except Err (List Chunk) :=
  if md.chunks.isEmpty then throw Err.valueError
  else resolveInOrder (submitAll md files)

/-! ### decidable hypotheses of the C03 theorems -/

def rowsInside (a b : Int) (rows : List Row) : Bool :=
  rows.all fun r => decide (a ≤ r.time) && decide (r.time < r.endt) && decide (r.endt ≤ b)

def adjacentB : List Chunk → Bool
  | [] => true
  | [_] => true
  | a :: b :: rest => decide (a.stop = b.start) && adjacentB (b :: rest)

/-- the laws of chunking (DESIGN.md §6): consecutive chunks adjacent, `start ≤ end`, every row
`start ≤ time < endt ≤ end`, all rows of the stream sorted by time. -/
def lawAbidingB (cs : List Chunk) : Bool :=
  adjacentB cs &&
  cs.all (fun c => decide (c.start ≤ c.stop) && rowsInside c.start c.stop c.rows) &&
  sortedByTimeB (cs.flatMap (·.rows))

/-- a `subruns` annotation that survives json (ordered by id) + the `Chunk` setter (stable sort by
(start, end), overlap check) unchanged -/
def restorableRuns : Option Runs → Bool
  | none => true
  | some s => (sortRuns (jsonRuns s) == s) && !runsOverlap s

/-- chunk of run `rid` that the loader can rebuild: a valid `strax.Chunk` (non-negative start,
`start ≤ end`, rows inside), run id `rid`, restorable subruns (mandatory for a super-run id). -/
def storableB (rid : String) (c : Chunk) : Bool :=
  decide (0 ≤ c.start) && decide (c.start ≤ c.stop) && rowsInside c.start c.stop c.rows &&
  (c.runId == some rid) && restorableRuns c.subruns && (!rid.startsWith "_" || c.subruns.isSome)

/-- sub-run spans in time order, not overlapping, no two with the same (start, end); zero-length
spans are allowed (a zero-duration chunk of a sub-run) since the D31 fix orders annotations by
(start, end); ids in any order -/
def spansOkB : Runs → Bool
  | [] => true
  | [a] => decide (a.start ≤ a.stop)
  | a :: b :: rest =>
    decide (a.start ≤ a.stop) && decide (a.stop ≤ b.start) && decide (a.start < b.stop) && spansOkB (b :: rest)

/-- a valid chunk of (super-)run `rid` carrying a sub-run annotation as strax produces them -/
def annotatedOkB (rid : String) (c : Chunk) : Bool :=
  decide (0 ≤ c.start) && decide (c.start ≤ c.stop) && rowsInside c.start c.stop c.rows &&
  (c.runId == some rid) &&
  (match c.subruns with
   | some sub => spansOkB sub
   | none => false)

/-- the conventions on top of the laws of chunking that a stream of run `rid` obeys: non-negative
times, run id `rid`, restorable subruns (mandatory for a super-run id) -/
def runOkB (rid : String) (c : Chunk) : Bool :=
  decide (0 ≤ c.start) && (c.runId == some rid) && restorableRuns c.subruns &&
  (!rid.startsWith "_" || c.subruns.isSome)

/-- what the loader can restore of a saved chunk: `data_type`, `data_kind`, `target_size_mb` come
from the metadata header, `superrun` is the constructor default `{run_id: (start, end)}`. -/
def restore (hdr : Header) (rid : String) (c : Chunk) : Chunk :=
  { c with dataType := hdr.dataType, kind := hdr.kind, target := hdr.target,
           superrun := [Run.mk rid c.start c.stop] }

/-- chunk boundaries of a stream: every start plus the last stop -/
def boundaries (cs : List Chunk) : List Int :=
  cs.map (·.start) ++ (match cs.getLast? with | some c => [c.stop] | none => [])

/-- `t` lies in a stretch covered by no row of `rows`: no row `[time, endt)` has `time ≤ t < endt`
(in particular none straddles `t`).  This is the property's wording ("fall in row-free gaps"); a cut
at the very instant a row ends is allowed.  C07's `rechunk_stream_partial` proves the stronger closed form
(`¬ (time ≤ t ≤ endt)`: today's rechunker cuts 500 ns inside a gap of more than 1000 ns). -/
def inGap (rows : List Row) (t : Int) : Bool :=
  rows.all fun r => !(decide (r.time ≤ t) && decide (t < r.endt))

/-- the C03 boundary rule: every boundary of `new` is a boundary of `old` or lies in a row-free gap -/
def boundaryRuleB (old new : List Chunk) : Bool :=
  (boundaries new).all fun t => (boundaries old).contains t || inGap (old.flatMap (·.rows)) t

end Strax.Storage
