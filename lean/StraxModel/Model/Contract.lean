import StraxModel.Model.Chunk
/-
  T11 Contract — the decision logic that validates what a plugin hands back (property C12).

  Mirrors, as the code stands today (D2 fixed; Chunk results dtype-checked in `_fix_output`; label and dtype
  checked per yielded chunk in `DownChunkingPlugin._fix_output`):
    * `strax.remove_titles_from_dtype`                                   → `stripTitles`
    * `Chunk.__init__` (dtype test + the range checks of `mkChunk`)      → `chunkInit`
      (`chunkInitOld` keeps the pre-D2 behaviour for the documented witness)
    * `Plugin.dtype_for / data_kind_for / chunk / _check_dtype`          → `Plugin.dtypeFor …`, `checkDtype`
    * `strax.dict_to_rec`                                                → `dictToRec`
    * `Plugin._fix_output` + `superrun_transformation`                   → `fixOne`, `fixOutput`
    * `DownChunkingPlugin._fix_output`                                   → `fixOutputDown`
    * `continuity_check` as used by `Context.get_iter` on the target     → `targetStream`
    * `Plugin.fix_dtype` (required time fields, dict declarations)       → `fixDtype`
    * what the processors do with savers when an output is rejected      → `process` (single-thread), `processEager`

  Import-free apart from `Model/Chunk.lean` (`mkChunk`, `lastEndMax`, `continuityCheck`, `contStep`).
-/
namespace Strax.Contract
open Strax

/-! ### dtypes -/

/-- one field of a numpy structured dtype: optional title, name, type code (`<i8`, `<i2(3,)`, …) -/
structure RField where
  title : Option String
  name : String
  code : String
deriving Repr, DecidableEq, Inhabited

/-- a structured dtype as numpy holds it (titles included) -/
abbrev RDtype := List RField
/-- a dtype with titles removed: (field name, type code) in field order -/
abbrev Dtype := List (String × String)

/-- `strax.remove_titles_from_dtype` (via `unpack_dtype`: offsets are dropped too) -/
def stripTitles (dt : RDtype) : Dtype := dt.map fun f => (f.name, f.code)

def fieldNames (dt : RDtype) : List String := dt.map (·.name)

/-! ### `Chunk.__init__` with its dtype test -/

/-- the `data` argument of the constructor -/
inductive DataArg where
  /-- `data=None` → `np.empty(0, dtype)` -/
  | none
  /-- a structured numpy array of the given dtype -/
  | array (dt : RDtype) (rows : List Row)
  /-- anything that is not a numpy array -/
  | notArray
deriving Repr, DecidableEq, Inhabited

/-- a chunk together with the two dtypes it carries: `chunk.dtype` (the `dtype` argument) and
`chunk.data.dtype` -/
structure CChunk where
  dtype : RDtype
  dataDtype : RDtype
  c : Chunk
deriving Repr, DecidableEq, Inhabited

/-- what escapes when the data is not a numpy array: the `ValueError` message formats the chunk,
whose `__repr__` needs `data.nbytes` unless the duration is zero — so it is an `AttributeError`
(`other`) for a chunk of non-zero duration; the subruns setter (a `ValueError`) comes first -/
def notArrayError (start stop : Int) (subruns : Option Runs) : Err :=
  match subruns with
  | some s => if runsOverlap (sortRuns s) then .valueError else (if stop - start = 0 then .valueError else .other)
  | none => if stop - start = 0 then .valueError else .other

/-- `Chunk.__init__` as it is now: the declared dtype is compared (titles stripped) with the dtype
of the data, then the range checks of `mkChunk` (start ≥ 0, start ≤ end, first row not before
`start`, no end among the LAST 500 rows beyond `end`) and the run annotations.
Every failure for array data is a `ValueError`, so the order of those tests is not observable. -/
def chunkInit (dataType kind : String) (runId : Option String) (declared : RDtype) (start stop : Int)
    (data : DataArg) (subruns superrun : Option Runs) (target : Nat) : Except Err CChunk :=
  match data with
  | .notArray => .error (notArrayError start stop subruns)
  | .none =>
    (mkChunk dataType kind runId start stop [] subruns superrun target).map (⟨declared, declared, ·⟩)
  | .array dt rows =>
    if stripTitles declared != stripTitles dt then .error .valueError
    else (mkChunk dataType kind runId start stop rows subruns superrun target).map (⟨declared, dt, ·⟩)

/-- the constructor before the D2 fix: `expected_dtype` and `got_dtype` were both computed from the
`dtype` argument, so the test could never fail -/
def chunkInitOld (dataType kind : String) (runId : Option String) (declared : RDtype) (start stop : Int)
    (data : DataArg) (subruns superrun : Option Runs) (target : Nat) : Except Err CChunk :=
  match data with
  | .notArray => .error (notArrayError start stop subruns)
  | .none =>
    (mkChunk dataType kind runId start stop [] subruns superrun target).map (⟨declared, declared, ·⟩)
  | .array dt rows =>
    if stripTitles declared != stripTitles declared then .error .valueError
    else (mkChunk dataType kind runId start stop rows subruns superrun target).map (⟨declared, dt, ·⟩)

/-! ### plugins (after `fix_dtype`) -/

structure Plugin where
  provides : List String
  /-- `self.dtype` of a single-output plugin (unused when multi-output) -/
  dtype : RDtype
  /-- `self.dtype` of a multi-output plugin, a dict (unused when single-output) -/
  dtypes : List (String × RDtype)
  /-- `self.data_kind` of a single-output plugin -/
  kind : String
  /-- `self.data_kind` of a multi-output plugin -/
  kinds : List (String × String)
  /-- `self._run_id` -/
  runId : String
  /-- `chunk_target_size_mb`, in rows -/
  target : Nat
deriving Repr, DecidableEq, Inhabited

def Plugin.multi (p : Plugin) : Bool := decide (p.provides.length > 1)

def Plugin.isSuperrun (p : Plugin) : Bool := p.runId.startsWith "_"

/-- `Plugin.dtype_for` -/
def Plugin.dtypeFor (p : Plugin) (d : String) : Except Err RDtype :=
  if p.multi then
    match p.dtypes.lookup d with
    | some dt => .ok dt
    | none => .error .valueError
  else .ok p.dtype

/-- `Plugin.data_kind_for` -/
def Plugin.kindFor (p : Plugin) (d : String) : Except Err String :=
  if p.multi then
    match p.kinds.lookup d with
    | some k => .ok k
    | none => .error .keyError
  else .ok p.kind

/-- `Plugin.chunk(start=, end=, data=, data_type=)`: the constructor is always called with the
DECLARED dtype of `data_type` -/
def Plugin.chunk (p : Plugin) (start stop : Int) (data : DataArg) (dataType : Option String) :
    Except Err CChunk := do
  let d ← match dataType with
    | some d => pure d
    | none =>
      if p.multi then throw Err.valueError
      match p.provides.head? with
      | some d => pure d
      | none => throw Err.other            -- IndexError on `provides[0]`
  let k ← p.kindFor d
  let dt ← p.dtypeFor d
  chunkInit d k (some p.runId) dt start stop data none none p.target

/-! ### what `compute` can return -/

/-- a value that is not a dict keyed by data types -/
inductive Leaf where
  /-- bare structured array -/
  | array (dt : RDtype) (rows : List Row)
  /-- an already constructed `strax.Chunk` -/
  | chunk (c : CChunk)
  /-- a `{field name: column}` dict (columns are integer arrays) -/
  | cols (entries : List (String × List Int))
  /-- `None` -/
  | noneVal
  /-- a list / tuple of the given length -/
  | seq (n : Nat)
  /-- a numpy array without fields -/
  | plain (n : Nat)
deriving Repr, DecidableEq, Inhabited

inductive Result where
  | leaf (l : Leaf)
  /-- a dict whose values are not plain columns (arrays, chunks, column dicts, …) -/
  | outputs (entries : List (String × Leaf))
deriving Repr, Inhabited

def Leaf.len : Leaf → Except Err Nat
  | .array _ rows => .ok rows.length
  | .chunk c => .ok c.c.rows.length
  | .cols e => .ok e.length
  | .noneVal => .error .typeError
  | .seq n => .ok n
  | .plain n => .ok n

/-! ### `strax.dict_to_rec` -/

/-- broadcast a column to `n` values (`r[k] = v`): length `n`, or length 1 repeated -/
def broadcast (v : List Int) (n : Nat) : Option (List Int) :=
  if v.length == n then some v
  else match v with
    | [x] => some (List.replicate n x)
    | _ => none

def colOr0 (entries : List (String × List Int)) (name : String) (n : Nat) : List Int :=
  match entries.lookup name with
  | some v => (broadcast v n).getD (List.replicate n 0)     -- validated before use, see `dictToRecCols`
  | none => List.replicate n 0

def zipWith3 (f : Int → Int → Int → Row) : List Int → List Int → List Int → List Row
  | a :: as, b :: bs, c :: cs => f a b c :: zipWith3 f as bs cs
  | _, _, _ => []

def mulAdd : List Int → List Int → List Int → List Int
  | t :: ts, a :: as, b :: bs => (t + a * b) :: mulAdd ts as bs
  | _, _, _ => []

/-- `dict_to_rec(x, dtype)` for a `{field: column}` dict: `np.zeros(n, dtype)` with `n` the length of
the first column, then `r[k] = v` for every entry (unknown field or unbroadcastable column:
`ValueError`).  Rows are read back as (time, endtime or time + dt·length, id). -/
def dictToRecCols (declared : RDtype) (entries : List (String × List Int)) : Except Err (List Row) :=
  match entries with
  | [] => .ok []
  | (_, v0) :: _ =>
    let n := v0.length
    let names := fieldNames declared
    if entries.any (fun kv => !(names.contains kv.1) || (broadcast kv.2 n).isNone) then .error .valueError
    else
      let get (k : String) : List Int := if names.contains k then colOr0 entries k n else List.replicate n 0
      let time := get "time"
      let endt := if names.contains "endtime" then get "endtime"
                  else mulAdd time (get "dt") (get "length")
      .ok (zipWith3 (fun t e i => ⟨t, e, i.toNat⟩) time endt (get "id"))

/-- `dict_to_rec` on whatever the non-Chunk result is; the outcome is "an array of this dtype with
these rows", or the array itself when it already was one -/
def dictToRec (declared : RDtype) (r : Result) : Except Err Leaf :=
  match r with
  | .leaf (.array dt rows) => .ok (.array dt rows)
  | .leaf (.plain n) => .ok (.plain n)
  | .leaf (.chunk _) => .error .other                 -- not reached: chunks never get here
  | .leaf (.cols e) => (dictToRecCols declared e).map (.array declared ·)
  | .leaf .noneVal => .error .typeError               -- `len(None)`
  | .leaf (.seq n) => if n == 0 then .ok (.array declared []) else .error .other   -- AttributeError `.keys`
  | .outputs [] => .ok (.array declared [])
  | .outputs ((k0, v0) :: rest) => do
    let _ ← v0.len                                      -- `len(x[some_key])`
    -- `r[k] = v`: an unknown field name is a ValueError; assigning a non-column to an existing
    -- field is outside the model (`other`)
    if ((k0, v0) :: rest).any (fun kv => !((fieldNames declared).contains kv.1)) then .error .valueError
    else .error .other

/-! ### `_check_dtype` -/

/-- `Plugin._check_dtype(x, d)` -/
def checkDtype (p : Plugin) (x : Leaf) (d : Option String) : Except Err Unit := do
  let d ← match d with
    | some d => pure d
    | none =>
      if p.multi then throw Err.assertionError
      match p.provides.head? with
      | some d => pure d
      | none => throw Err.other
  match x with
  | .array dt _ =>
    let expect ← p.dtypeFor d
    if stripTitles dt != stripTitles expect then throw Err.pluginGaveWrongOutput
  | .plain _ =>
    let _ ← p.dtypeFor d
    throw Err.typeError                                 -- `for field_name in dtype.names` on None
  | _ => throw Err.pluginGaveWrongOutput

/-- the same test comparing field NAMES only — not the code; used as the reference point for the
mutant "`_check_dtype` compares names only" -/
def checkDtypeNamesOnly (p : Plugin) (x : Leaf) (d : String) : Except Err Unit := do
  match x with
  | .array dt _ =>
    let expect ← p.dtypeFor d
    if fieldNames dt != fieldNames expect then throw Err.pluginGaveWrongOutput
  | _ => throw Err.pluginGaveWrongOutput

/-! ### `superrun_transformation` -/

/-- `chunk.subruns = s` (setter) -/
def setSubruns (c : Chunk) (s : Option Runs) : Except Err Chunk :=
  match s with
  | none => .ok { c with subruns := none }
  | some s =>
    let s := sortRuns s
    if runsOverlap s then .error .valueError else .ok { c with subruns := some s }

/-- `chunk.superrun = s` (setter) -/
def setSuperrun (c : Chunk) (s : Option Runs) : Except Err Chunk := do
  let s ← match s with
    | some s => pure s
    | none =>
      match c.runId with
      | some rid => pure [Run.mk rid c.start c.stop]
      | none => throw Err.valueError
  if s.isEmpty then throw Err.valueError
  if s.length == 1 && c.runId.isNone then throw Err.valueError
  let s := sortRuns s
  if runsOverlap s then throw Err.valueError
  pure { c with superrun := s }

def distinctIds (rs : Runs) : Nat := (rs.map (·.id)).eraseDups.length

/-- which branch of `superrun_transformation` applies (decided before any chunk is touched):
`some s` = "assign the superrun `s` as subruns" (processing a superrun whose id is not yet in the
chunks' superrun), `none` = inherit subruns and superrun from the inputs -/
def superrunMode (p : Plugin) (superrun : Option Runs) : Except Err (Option Runs) := do
  if p.isSuperrun then
    match superrun with
    | none => throw Err.typeError                        -- `self._run_id not in None`
    | some s => if !(s.any (·.id == p.runId)) then return some s
  match superrun with
  | some s => if distinctIds s > 1 then throw Err.valueError
  | none => pure ()
  return none

def applyMode (mode : Option Runs) (cc : CChunk) (superrun subruns : Option Runs) : Except Err CChunk :=
  match mode with
  | some s => do
    let c ← setSubruns cc.c (some s)
    pure { cc with c := c }
  | none => do
    let c ← setSubruns cc.c subruns
    let c ← setSuperrun c superrun
    pure { cc with c := c }

/-- `Plugin.superrun_transformation` on one chunk -/
def superrunTransformation (p : Plugin) (cc : CChunk) (superrun subruns : Option Runs) : Except Err CChunk := do
  let m ← superrunMode p superrun
  applyMode m cc superrun subruns

/-- `Plugin.superrun_transformation` on a dict of chunks -/
def superrunTransformationMany (p : Plugin) (l : List (String × CChunk)) (superrun subruns : Option Runs) :
    Except Err (List (String × CChunk)) := do
  let m ← superrunMode p superrun
  l.mapM fun (k, c) => (applyMode m c superrun subruns).map (k, ·)

/-! ### `Plugin._fix_output` -/

/-- the single-output branch of `_fix_output` for data type `d`.
`range = none` means `start is None`, i.e. a plugin without dependencies.
`checkChunks = true` is the code as it is now: a result that already is a `Chunk` has the dtype of
its data compared with the declared one (`_check_dtype(result.data, d)`), before the label test.
`checkChunks = false` is the code before that fix (kept for the documented counterexample). -/
def fixOneG (checkChunks : Bool) (p : Plugin) (d : String) (r : Result) (range : Option (Int × Int))
    (superrun subruns : Option Runs) : Except Err CChunk := do
  let cc ← match r with
    | .leaf (.chunk c) =>
      if checkChunks then checkDtype p (.array c.dataDtype c.c.rows) (some d)
      pure c
    | _ =>
      let (start, stop) ← match range with
        | some se => pure se
        | none => throw Err.valueError                   -- "must return full strax Chunks"
      match r with
      | .leaf (.cols [_]) => throw Err.valueError        -- single key results dict
      | .outputs [_] => throw Err.valueError
      | _ => pure ()
      let declared ← p.dtypeFor d
      let arr ← dictToRec declared r
      checkDtype p arr (some d)
      match arr with
      | .array dt rows => p.chunk start stop (.array dt rows) (some d)
      | _ => throw Err.other                             -- not reached: `checkDtype` passed
  if cc.c.dataType != d then throw Err.valueError        -- chunk labelled with another data type
  superrunTransformation p cc superrun subruns

def fixOne := fixOneG true

/-- what `_fix_output` returns: one chunk, or a dict of chunks for a multi-output plugin -/
inductive Fixed where
  | one (c : CChunk)
  | many (l : List (String × CChunk))
deriving Repr, DecidableEq, Inhabited

def lookupOutput (r : Result) (d : String) : Except Err Result :=
  match r with
  | .outputs e =>
    match e.lookup d with
    | some l => .ok (.leaf l)
    | none => .error .keyError
  | .leaf (.cols e) =>
    match e.lookup d with
    | some col => .ok (.leaf (.plain col.length))
    | none => .error .keyError
  | _ => .error .valueError

def Result.isDict : Result → Bool
  | .outputs _ => true
  | .leaf (.cols _) => true
  | _ => false

/-- `Plugin._fix_output(result, start, end, superrun, subruns)` -/
def fixOutputG (checkChunks : Bool) (p : Plugin) (r : Result) (range : Option (Int × Int))
    (superrun subruns : Option Runs) : Except Err Fixed :=
  if p.multi then
    if !r.isDict then .error .valueError                 -- multi-output and not a dict
    else
      (p.provides.mapM fun d => do
        let rd ← lookupOutput r d
        let c ← fixOneG checkChunks p d rd range superrun subruns
        pure (d, c)).map Fixed.many
  else
    match p.provides.head? with
    | none => .error .assertionError
    | some d => (fixOneG checkChunks p d r range superrun subruns).map Fixed.one

def fixOutput := fixOutputG true

/-! ### `DownChunkingPlugin._fix_output` -/

inductive DownResult where
  | notGenerator
  | gen (items : List Result)
deriving Repr, Inhabited

def Leaf.isChunk : Leaf → Bool
  | .chunk _ => true
  | _ => false

def asChunks : List (String × Leaf) → Option (List (String × CChunk))
  | [] => some []
  | (k, .chunk c) :: rest => (asChunks rest).map ((k, c) :: ·)
  | _ :: _ => none

/-- the per-chunk tests of the down-chunking plugin (code as it is now): label first, then dtype -/
def downChecks (p : Plugin) : List (String × CChunk) → Except Err Unit
  | [] => .ok ()
  | (d, c) :: rest => do
    if c.c.dataType != d then throw Err.valueError
    checkDtype p (.array c.dataDtype c.c.rows) (some d)
    downChecks p rest

/-- one yielded item: must be a Chunk or a dict of Chunks (a non-dict from a multi-output plugin is
refused); `checks = true` (the code now): every chunk must carry the label it is filed under and
data of the declared dtype; `checks = false` is the code before that fix.  Then
`superrun_transformation`. -/
def fixDownItemG (checks : Bool) (p : Plugin) (r : Result) (superrun subruns : Option Runs) : Except Err Fixed :=
  match r with
  | .outputs e =>
    match asChunks e with
    | none => .error .valueError
    | some l => do
      if checks then downChecks p l
      (superrunTransformationMany p l superrun subruns).map Fixed.many
  | .leaf (.cols e) =>
    -- a dict of columns: not chunks — unless it is empty, then there is nothing to test
    if e.isEmpty then (superrunTransformationMany p [] superrun subruns).map Fixed.many
    else .error .valueError
  | .leaf l =>
    if p.multi then .error .valueError
    else match l with
      | .chunk c => do
        if checks then
          match p.provides.head? with
          | some d => downChecks p [(d, c)]
          | none => throw Err.other
        (superrunTransformation p c superrun subruns).map Fixed.one
      | _ => .error .valueError

def fixDownItem := fixDownItemG true

/-- items delivered before the first rejected one, and the error if any -/
def runItems (f : α → Except Err β) : List α → List β × Option Err
  | [] => ([], none)
  | a :: rest =>
    match f a with
    | .error e => ([], some e)
    | .ok b =>
      let (bs, e) := runItems f rest
      (b :: bs, e)

/-- `DownChunkingPlugin._fix_output` is a generator: everything yielded before the offending item
has already been handed on -/
def fixOutputDownG (checks : Bool) (p : Plugin) (r : DownResult) (superrun subruns : Option Runs) :
    List Fixed × Option Err :=
  match r with
  | .notGenerator => ([], some .valueError)
  | .gen items => runItems (fun it => fixDownItemG checks p it superrun subruns) items

def fixOutputDown := fixOutputDownG true

/-! ### continuity of the requested target (`get_iter`) -/

/-- `for chunk in continuity_check(generator)`: the chunks handed to the caller before the check
fails, and the error if it does -/
def targetStreamFrom (s : ContState) : List Chunk → List Chunk × Option Err
  | [] => ([], none)
  | c :: rest =>
    match contStep s c with
    | .error e => ([], some e)
    | .ok s' =>
      let (out, e) := targetStreamFrom s' rest
      (c :: out, e)

def targetStream (cs : List Chunk) : List Chunk × Option Err := targetStreamFrom {} cs

/-- some boundary between consecutive chunks is not a meeting point -/
def hasBreak : List Chunk → Bool
  | [] => false
  | [_] => false
  | a :: b :: rest => decide (a.stop ≠ b.start) || hasBreak (b :: rest)

/-- an ordinary (non-superrun) stream of one run -/
def plainStream (rid : String) (cs : List Chunk) : Bool :=
  cs.all fun c => c.runId == some rid && c.subruns == none

/-! ### `Plugin.fix_dtype` -/

inductive DtypeDecl where
  | missing                                  -- neither `dtype` nor `infer_dtype`
  | single (dt : RDtype)
  | dict (l : List (String × RDtype))
deriving Repr, DecidableEq, Inhabited

structure PluginDecl where
  provides : List String
  dtype : DtypeDecl
  kindIsDict : Bool
deriving Repr, DecidableEq, Inhabited

/-- "time" and ("endtime" or ("dt" and "length")) -/
def hasTimeFields (dt : RDtype) : Bool :=
  let n := fieldNames dt
  n.contains "time" && ((n.contains "dt" && n.contains "length") || n.contains "endtime")

/-- `Plugin.fix_dtype` -/
def fixDtype (p : PluginDecl) : Except Err Unit := do
  let multi := decide (p.provides.length > 1)
  if p.dtype == .missing then throw Err.notImplemented
  if multi then
    if !p.kindIsDict then throw Err.valueError
    match p.dtype with
    | .dict l =>
      p.provides.forM fun d =>
        match l.lookup d with
        | none => throw Err.valueError                   -- `dtype_for`: not provided
        | some dt => if hasTimeFields dt then pure () else throw Err.valueError
    | _ => throw Err.valueError
  else
    match p.dtype with
    | .single dt => p.provides.forM fun _ => if hasTimeFields dt then pure () else throw Err.valueError
    | _ => throw Err.other                               -- a dict handed to `to_numpy_dtype`: outside the model

/-! ### savers: what happens to storage when an output is rejected -/

/-- abstract saver: the chunks written so far, whether it was closed, and whether an exception
was recorded in the metadata at close -/
structure Saver (α : Type) where
  written : List α := []
  closed : Bool := false
  exc : Bool := false
deriving Repr

/-- data is visible as valid iff the saver closed without recording an exception -/
def Saver.visible (s : Saver α) : Bool := s.closed && !s.exc

def Saver.save (s : Saver α) (a : α) : Saver α := { s with written := s.written ++ [a] }
/-- regular close at the end of the stream -/
def Saver.close (s : Saver α) : Saver α := { s with closed := true }
/-- close while an exception is being handled (`kill_spies`, `MailboxKilled`): recorded -/
def Saver.closeExc (s : Saver α) : Saver α := { s with closed := true, exc := true }

/-- single-thread processing of one data type: every produced output is either a rejection (the
plugin's iterator raised) or a chunk; a chunk is first given to the saver, then to the consumer,
whose own check (`continuity_check` for the target) may raise too.  Any exception closes the saver
with the exception recorded and is re-raised; exhaustion closes it regularly.
Returns the saver, the chunks handed to the user, and the error if any. -/
def process (check : σ → α → Except Err σ) : σ → List (Except Err α) → Saver α → Saver α × List α × Option Err
  | _, [], sv => (sv.close, [], none)
  | _, .error e :: _, sv => (sv.closeExc, [], some e)
  | st, .ok a :: rest, sv =>
    let sv := sv.save a
    match check st a with
    | .error e => (sv.closeExc, [], some e)
    | .ok st' =>
      let (sv', out, e) := process check st' rest sv
      (sv', a :: out, e)

/-- consumer-side continuity check on bare `[start, stop)` pairs (the target's `continuity_check` in
`get_iter`, reduced to what it compares for an ordinary run) -/
def contCheck (last : Option Int) (c : Int × Int) : Except Err (Option Int) :=
  match last with
  | some e => if c.1 = e then .ok (some c.2) else .error .valueError
  | none => .ok (some c.2)

/-- the EAGER threaded pipeline with a consumer slower than the pipeline: the saver runs ahead of
the consumer — it sees the whole stream and its regular end (or the producer's exception) before
the consumer has checked anything; the consumer's own check then runs on the same stream.
Returns the saver and the error the caller gets (finding F3 / D21). -/
def processEager (check : σ → α → Except Err σ) (st : σ) (outs : List (Except Err α)) (sv : Saver α) :
    Saver α × Option Err :=
  match outs.find? (fun o => !o.toBool) with
  | some (.error e) => (sv.closeExc, some e)
  | _ =>
    let good := outs.filterMap fun o => match o with | .ok a => some a | .error _ => none
    let sv := (good.foldl Saver.save sv).close
    (sv, (process check st outs ({} : Saver α)).2.2)

end Strax.Contract
