import StraxModel.Model.Chunk
/-
  T9 (file-system half) — the `FileSaver` save protocol over an abstract, crashing file system.

  Mirrors, for ONE data key (one `<run>-<type>-<hash>` directory and its `_temp` twin):
    strax/storage/files.py   FileSaver.__init__ / _flush_metadata / _save_chunk / _save_chunk_metadata / _close,
                             FileSytemBackend._get_metadata, DataDirectory._find
    strax/io.py              save_file  (`<file>_temp` written, then renamed)
    strax/storage/common.py  Saver.save_from / save / close (fixed code: failed executor writes are re-raised),
                             StorageFrontend.find (broken-data check), StorageBackend.loader
  Op alphabet = DESIGN.md Appendix E with `open … w` expanded into truncate / write / close and `rmtree`
  into listdir + one unlink per entry (order chosen by the scheduler) + rmdir.  Models /repo as it is now:
  D3 (executor failures re-raised), D26 (close failure recorded) and D12 (broken data moved aside atomically before
  it is deleted) are fixed; the old behaviours stay available as `Proto` / `HandlerSpec` switches for the witnesses.

  The protocol is a small-step machine: the saver thread runs a program (`List Item`), chunk writes are
  `Worker`s (inline for the serial variant, on the executor for the thread-pool variant, "forked copies" for
  inlined savers) whose operations interleave with the saver's in any order.  Faults are actions of the
  scheduler: any operation may raise (`savFail`, `wrkFail`), an exception may be thrown into the saver from
  elsewhere (`savFail` at a non-FS item), and the process may die in any configuration (death = "stop here").
  Self-contained: shares only `Strax.Chunk` with the other storage theory (Model/Storage.lean).
-/
namespace Strax.FS
open Strax

/-! ## names, contents, directories -/

/-- entries of a data directory -/
inductive Name where
  | md                   -- `<prefix>-metadata.json`
  | chunk (i : Nat)      -- `<prefix>-00000i`
  | tmp (i : Nat)        -- `<prefix>-00000i_temp`
  | cmeta (i : Nat)      -- `metadata_<prefix>-00000i.json`  (forked savers)
deriving DecidableEq, Repr, Inhabited

inductive DirId where
  | final                -- `<root>/<key>`
  | temp                 -- `<root>/<key>_temp`
deriving DecidableEq, Repr, Inhabited

/-- one entry of `metadata["chunks"]`; `hdr` is the chunk with its rows erased (start, end, run id, …),
`hasFile` = the entry carries a `filename` (only non-empty chunks are written to a file) -/
structure ChunkInfo where
  i : Nat
  n : Nat
  hdr : Chunk
  hasFile : Bool
deriving DecidableEq, Repr, Inhabited

/-- the part of the metadata JSON the protocol depends on -/
structure Meta where
  chunks : List ChunkInfo
  ended : Bool           -- "writing_ended" present
  exc : Bool             -- "exception" present
deriving DecidableEq, Repr, Inhabited

def Meta.good (m : Meta) : Bool := m.ended && !m.exc

inductive Content where
  | empty                          -- just truncated / created
  | rows (rs : List Row)           -- compressed chunk data
  | json (m : Meta)                -- metadata JSON
  | info (ci : ChunkInfo)          -- per-chunk metadata JSON of a forked saver
deriving DecidableEq, Repr, Inhabited

/-- a directory: association list without duplicate keys (maintained by `set`) -/
abbrev Dir := List (Name × Content)

def Dir.get : Dir → Name → Option Content
  | [], _ => none
  | (k, v) :: rest, n => if k = n then some v else Dir.get rest n

def Dir.del : Dir → Name → Dir
  | [], _ => []
  | (k, v) :: rest, n => if k = n then Dir.del rest n else (k, v) :: Dir.del rest n

def Dir.set (d : Dir) (n : Name) (c : Content) : Dir := (n, c) :: d.del n

def Dir.names (d : Dir) : List Name := d.map (·.1)

/-- the file system as far as one key is concerned -/
structure FS where
  final : Option Dir
  temp : Option Dir
deriving DecidableEq, Repr, Inhabited

def FS.empty : FS := ⟨none, none⟩

def FS.dir (fs : FS) : DirId → Option Dir
  | .final => fs.final
  | .temp => fs.temp

def FS.setDir (fs : FS) (d : DirId) (v : Option Dir) : FS :=
  match d with
  | .final => { fs with final := v }
  | .temp => { fs with temp := v }

/-! ## primitive operations (single-step semantics) -/

inductive Op where
  | existsDir (d : DirId)                    -- os.path.exists(dir)            (probe)
  | listdir (d : DirId)                      -- os.listdir inside rmtree       (probe)
  | glob (d : DirId)                         -- glob(dir/metadata_*.json)      (probe)
  | read (d : DirId) (n : Name)              -- open(…, "r") + read            (probe)
  | mkdir (d : DirId)                        -- os.makedirs(dir)
  | openTrunc (d : DirId) (n : Name)         -- open(…, "w"): create or truncate
  | write (d : DirId) (n : Name) (c : Content)
  | close (d : DirId) (n : Name)
  | rename (d : DirId) (src dst : Name)      -- os.rename of a file inside a directory (atomic replace)
  | renameDir (src dst : DirId)              -- os.rename(temp, final)
  | unlink (d : DirId) (n : Name)
  | rmdir (d : DirId)
deriving DecidableEq, Repr, Inhabited

/-- one operation; `osError` where the real call raises -/
def apply (fs : FS) : Op → Except Err FS
  | .existsDir _ => .ok fs
  | .glob _ => .ok fs
  | .listdir d => if (fs.dir d).isSome then .ok fs else .error .osError
  | .read d n =>
    match fs.dir d with
    | some dir => if (dir.get n).isSome then .ok fs else .error .osError
    | none => .error .osError
  | .mkdir d => if (fs.dir d).isSome then .error .osError else .ok (fs.setDir d (some []))
  | .openTrunc d n =>
    match fs.dir d with
    | some dir => .ok (fs.setDir d (some (dir.set n .empty)))
    | none => .error .osError
  | .write d n c =>
    match fs.dir d with
    | some dir => if (dir.get n).isSome then .ok (fs.setDir d (some (dir.set n c))) else .error .osError
    | none => .error .osError
  | .close d _ => if (fs.dir d).isSome then .ok fs else .error .osError
  | .rename d src dst =>
    match fs.dir d with
    | some dir =>
      match dir.get src with
      | some c => .ok (fs.setDir d (some ((dir.del src).set dst c)))
      | none => .error .osError
    | none => .error .osError
  | .renameDir src dst =>
    if src = dst then .error .osError else
    match fs.dir src with
    | some dir =>
      match fs.dir dst with
      | some (_ :: _) => .error .osError            -- ENOTEMPTY
      | _ => .ok ((fs.setDir dst (some dir)).setDir src none)
    | none => .error .osError
  | .unlink d n =>
    match fs.dir d with
    | some dir => if (dir.get n).isSome then .ok (fs.setDir d (some (dir.del n))) else .error .osError
    | none => .error .osError
  | .rmdir d =>
    match fs.dir d with
    | some [] => .ok (fs.setDir d none)
    | _ => .error .osError

/-! ## readers: `_get_metadata`, `find` (with the broken-data check), `loader` -/

/-- `FileSytemBackend._get_metadata(<final dir>)` behind `StorageBackend.get_metadata`: the metadata file of the
directory, else the one of the `_temp` twin ("so fast that there exists a temp folder"), else `DataCorrupted`;
a file that does not parse is wrapped into `DataCorrupted` as well. -/
def getMetadata (fs : FS) : Except Err Meta :=
  let p1 := fs.final.bind (·.get .md)
  let p := match p1 with
    | some c => some c
    | none => fs.temp.bind (·.get .md)
  match p with
  | some (.json m) => .ok m
  | some _ => .error .dataCorrupted
  | none => .error .dataCorrupted

/-- `StorageFrontend.find(key)` with the default options (exact match, `check_broken`, no `allow_incomplete`)
on a `DataDirectory`: `ok` = the data is visible as valid. -/
def find (fs : FS) : Except Err Unit :=
  match fs.final with
  | none => .error .dataNotAvailable
  | some _ =>
    match getMetadata fs with
    | .error e => .error e
    | .ok m =>
      if m.exc then .error .dataNotAvailable
      else if !m.ended then .error .dataNotAvailable
      else .ok ()

/-- `visible` = `DataDirectory._find` + the broken-data check the context applies (`is_stored` is `find` with
`DataNotAvailable` mapped to False — any other exception escapes, which is D12). -/
def visible (fs : FS) : Bool := (find fs).toBool

def infoOf (i : Nat) (c : Chunk) : ChunkInfo := ⟨i, c.rows.length, { c with rows := [] }, !c.rows.isEmpty⟩

def infos (cs : List Chunk) (start : Nat := 0) : List ChunkInfo :=
  match cs with
  | [] => []
  | c :: rest => infoOf start c :: infos rest (start + 1)

/-- `_read_and_format_chunk`: no file for `n == 0`; a missing file is an OSError, a file whose row count differs
(or that was only truncated) is `DataCorrupted` -/
def loadChunk (dir : Dir) (ci : ChunkInfo) : Except Err Chunk :=
  if ci.n = 0 then .ok { ci.hdr with rows := [] }
  else if !ci.hasFile then .error .keyError
  else match dir.get (.chunk ci.i) with
    | none => .error .osError
    | some (.rows rs) => if rs.length = ci.n then .ok { ci.hdr with rows := rs } else .error .dataCorrupted
    | some _ => .error .dataCorrupted

def loadChunks (dir : Dir) : List ChunkInfo → Except Err (List Chunk)
  | [] => .ok []
  | ci :: rest =>
    match loadChunk dir ci with
    | .error e => .error e
    | .ok c =>
      match loadChunks dir rest with
      | .error e => .error e
      | .ok cs => .ok (c :: cs)

/-- `StorageFrontend.loader` = `find` then `StorageBackend.loader` reading every chunk -/
def loads (fs : FS) : Except Err (List Chunk) :=
  match find fs with
  | .error e => .error e
  | .ok () =>
    match getMetadata fs with
    | .error e => .error e
    | .ok m =>
      if m.chunks.isEmpty then .error .valueError       -- "it has no chunks!"
      else loadChunks (fs.final.getD []) m.chunks

/-! ## the saver as a small-step machine -/

inductive Variant where
  | serial        -- chunk files written synchronously by the saver thread
  | executor      -- chunk files written by a thread pool; `save_from` polls and finally waits for the futures
  | forked        -- inlined (forked) savers: per-chunk `metadata_*.json`, collected by `_close`
deriving DecidableEq, Repr, Inhabited

inductive WSt where
  | running | ok | failed
deriving DecidableEq, Repr, Inhabited

/-- a chunk write in flight (`strax.save_file` on some thread / in some forked copy) -/
structure Worker where
  i : Nat
  ops : List Op
  st : WSt
deriving DecidableEq, Repr, Inhabited

/-- which of the three kinds of metadata flush an item belongs to (same semantics, different place in the protocol) -/
inductive Ph where
  | init | chunk | last
deriving DecidableEq, Repr, Inhabited

inductive Item where
  | op (o : Op)                            -- one FS operation of the saver thread with static arguments
  | rmtreeIf (d : DirId) (second : Bool)   -- `if exists(d): rmtree(d)` after the exists-probe
  | moveFinalIf                            -- `if exists(final): rename(final, temp); rmtree(temp)` after the probe
  | rmList (d : DirId) (second : Bool)     -- inside rmtree: os.listdir / scandir
  | unlinks (d : DirId) (second : Bool)    -- inside rmtree: one unlink per entry, order chosen by the scheduler
  | rmRmdir (d : DirId) (second : Bool)    -- inside rmtree: the final rmdir
  | flushOpen (p : Ph) | flushWrite (p : Ph) | flushClose (p : Ph)   -- `_flush_metadata`: open(w) / write(json(md)) / close
  | armed                                  -- FileSaver.__init__ returned: from now on a failure closes the saver
  | append (ci : ChunkInfo)                -- md["chunks"].append(chunk_info)
  | submit (i : Nat) (ops : List Op)       -- start a chunk write
  | markUnreg                              -- save_from: the future just submitted is not yet in `pending`
  | join                                   -- the write just started was synchronous: its exception is the saver's
  | poll                                   -- save_from: `f.result()` of the futures that are done
  | waitAll                                -- save_from: wait(pending); f.result()
  | waitQuiet                              -- close(wait_for=pending): wait only
  | markClosed                             -- Saver.close: closed = True, "exception" / "writing_ended" into md
  | checkTemp                              -- _close: `if not exists(temp): raise`
  | collect                                -- _close: sorted(glob(temp/metadata_*.json))
  | readInfo (i : Nat)                     -- _close: json.load(metadata_i); md["chunks"].append
  | finish                                 -- the saver's outcome is known
deriving DecidableEq, Repr, Inhabited

inductive Outcome where
  | running | success | raised
deriving DecidableEq, Repr, Inhabited

/-- what the exception handler of the processor does with this saver besides closing it: the single-thread
processor's `SaverSpy.close` first flushes its rechunker and saves what comes out (`extra`, numbered from
`extraStart`); `save_from` (threaded processor) saves nothing more. -/
structure HandlerSpec where
  variant : Variant
  extra : List Chunk
  extraStart : Nat
  /-- the processor's handler never reaches this saver (single-thread processor: `kill_spies` stops at the first
  saver that is already closed, D7), so a failure leaves it as it is -/
  abandoned : Bool := false
  /-- the processor does not notice an exception raised by `Saver.close()` at the normal end of `save_from`
  (threaded processor as it is: the saver thread dies, `got_exception` stays unset — the behaviour before the D26 fix) -/
  lostClose : Bool := false
deriving DecidableEq, Repr, Inhabited

structure Cfg where
  fs : FS
  md : Meta
  prog : List Item
  workers : List Worker
  orphans : List Worker  -- chunk writes nobody waits for (submitted, then `save_from` failed before they reached `pending`)
  unreg : Bool           -- the write submitted last is not yet in `pending`
  term : Bool            -- a failure of the saver thread is terminal (inside __init__, inside the handler, after closed=True)
  handling : Bool        -- the saver is being closed by an exception handler
  out : Outcome
  failed : Bool          -- ghost: some FS operation of the protocol raised
  lost : Bool            -- ghost: an exception of the saver was lost (never reported to the caller)
  spec : HandlerSpec
deriving DecidableEq, Repr, Inhabited

/-- `strax.save_file(fn)`: open `<fn>_temp`, write, close, rename -/
def writeOps (i : Nat) (rs : List Row) : List Op :=
  [.openTrunc .temp (.tmp i), .write .temp (.tmp i) (.rows rs), .close .temp (.tmp i), .rename .temp (.tmp i) (.chunk i)]

/-- what a forked copy of the saver does for chunk i: the data file (non-empty chunks), `metadata_<file>.json`,
and for the first chunk a flush of its own copy of the metadata -/
def forkOps (i : Nat) (c : Chunk) : List Op :=
  (if c.rows.isEmpty then [] else writeOps i c.rows)
  ++ [.openTrunc .temp (.cmeta i), .write .temp (.cmeta i) (.info (infoOf i c)), .close .temp (.cmeta i)]
  ++ (if i = 0 then [.openTrunc .temp .md, .write .temp .md (.json ⟨[infoOf i c], false, false⟩), .close .temp .md]
      else [])

def flushItems (p : Ph) : List Item := [.flushOpen p, .flushWrite p, .flushClose p]

/-- `Saver.save(chunk, i)` as seen by the saver thread; `recheck = false` is the OLD protocol (D3: done futures
dropped unchecked).  Inlined (forked) savers are not driven by `save_from` at all:
`ParallelSourcePlugin.do_compute` saves inside the pool worker; its result is looked at only once, by `cleanup` before
it closes the savers (`waitAll` of `saverProg`; before the D35 fix not at all). -/
def chunkItems (v : Variant) (recheck : Bool) (i : Nat) (c : Chunk) : List Item :=
  match v with
  | .serial =>
    (if c.rows.isEmpty then [] else [.submit i (writeOps i c.rows), .join]) ++ [.append (infoOf i c)] ++ flushItems .chunk
  | .executor =>
    (if c.rows.isEmpty then [] else [.submit i (writeOps i c.rows), .markUnreg]) ++ [.append (infoOf i c)] ++ flushItems .chunk
      ++ (if recheck then [.poll] else [])
  | .forked => [.submit i (forkOps i c)]

def chunksItems (v : Variant) (recheck : Bool) : Nat → List Chunk → List Item
  | _, [] => []
  | i, c :: rest => chunkItems v recheck i c ++ chunksItems v recheck (i + 1) rest

/-- `Saver.close` + `FileSaver._close` -/
def closeItems : List Item :=
  [.waitQuiet, .markClosed, .checkTemp, .collect] ++ flushItems .last ++ [.op (.renameDir .temp .final), .finish]

/-- `FileSaver.__init__`: a stale temp directory is removed; a (broken) final directory is first moved onto the
temp name atomically and removed there (`second` marks the items of that second rmtree) -/
def initItems : List Item :=
  [.op (.existsDir .temp), .rmtreeIf .temp false, .op (.existsDir .final), .moveFinalIf, .op (.mkdir .temp)]
  ++ flushItems .init ++ [.armed]

/-- `FileSaver.__init__` before the D12 fix: the final directory was deleted in place -/
def initItemsOld : List Item :=
  [.op (.existsDir .final), .rmtreeIf .final false, .op (.existsDir .temp), .rmtreeIf .temp false, .op (.mkdir .temp)]
  ++ flushItems .init ++ [.armed]

/-- which revision of the protocol: `recheck = false` drops done futures unchecked (before the D3 fix),
`atomicRemove = false` deletes broken data in place (before the D12 fix) -/
structure Proto where
  recheck : Bool := true
  atomicRemove : Bool := true
  /-- `ParallelSourcePlugin.cleanup` waits for the pool tasks AND looks at their results: if one failed, the inlined
  savers are closed inside that exception's context (D35 fix); `false` = before the fix (it only waited) -/
  cleanupChecks : Bool := true
deriving DecidableEq, Repr, Inhabited

def saverProg (v : Variant) (pr : Proto) (cs : List Chunk) : List Item :=
  (if pr.atomicRemove then initItems else initItemsOld) ++ chunksItems v pr.recheck 0 cs
    ++ (if (pr.recheck && v == .executor) || (pr.cleanupChecks && v == .forked) then [.waitAll] else []) ++ closeItems

def handlerItems (h : HandlerSpec) : List Item :=
  chunksItems h.variant true h.extraStart h.extra ++ closeItems

def initCfg (fs : FS) (v : Variant) (pr : Proto) (cs : List Chunk) (h : HandlerSpec) : Cfg :=
  { fs, md := ⟨[], false, false⟩, prog := saverProg v pr cs, workers := [], orphans := [], unreg := false, term := true, handling := false,
    out := .running, failed := false, lost := false, spec := h }

/-- the scheduler's choices -/
inductive Act where
  | sav                  -- the saver thread performs its next item
  | savFail              -- … its next FS operation raises instead (I/O error)
  | abort                -- an exception is thrown into the saver thread from elsewhere (plugin, other saver, mailbox kill)
  | rm (n : Name)        -- inside rmtree: unlink entry n next
  | rmFail (n : Name)    -- … which raises
  | wrk (k : Nat)        -- the k-th chunk write performs its next operation
  | wrkFail (k : Nat)    -- … which raises
  | orph (k : Nat)       -- the k-th un-awaited chunk write performs its next operation
  | orphFail (k : Nat)   -- … which raises
deriving DecidableEq, Repr, Inhabited

/-- the saver was closed by the normal path (`closed = True` set by `Saver.close` without an exception around) -/
def Cfg.closedNormally (c : Cfg) : Bool := c.md.ended && !c.handling

/-- the saver thread gets an exception: outside the armed region it simply propagates (and is lost when the
processor does not look: before the D26 fix); otherwise the processor's handler closes the saver -/
def Cfg.fail (c : Cfg) : Cfg :=
  if c.term || c.spec.abandoned then
    if c.spec.lostClose && c.closedNormally then { c with prog := [], out := .success, lost := true }
    else { c with prog := [], out := .raised }
  else if c.unreg then
    -- `save_from` failed between `executor.submit` and the end of that iteration's poll: the future never reached
    -- `pending`, so the handler's `close(wait_for=pending)` does not wait for it
    { c with prog := handlerItems c.spec, term := true, handling := true, unreg := false,
             workers := c.workers.dropLast, orphans := c.orphans ++ c.workers.getLast?.toList }
  else { c with prog := handlerItems c.spec, term := true, handling := true }

/-- an FS operation of the saver thread raised -/
def Cfg.opFail (c : Cfg) : Cfg := { c with failed := true }.fail

/-- the saver thread issues FS operation `o`, then continues with `rest` -/
def Cfg.doOp (c : Cfg) (o : Op) (rest : List Item) : Cfg :=
  match apply c.fs o with
  | .ok fs' => { c with fs := fs', prog := rest }
  | .error _ => c.opFail

def cmetaIdx (d : Dir) : List Nat :=
  d.filterMap fun e => match e.1 with
    | .cmeta i => some i
    | _ => none

/-- indices of the `metadata_*.json` files of a directory in the order of `sorted(glob(...))` -/
def collectList (d : Dir) : List Nat :=
  let idx := cmetaIdx d
  let bound := idx.foldl (fun a b => max a (b + 1)) 0
  (List.range bound).filter fun i => (d.get (.cmeta i)).isSome

def collectItems (l : List Nat) : List Item :=
  l.flatMap fun i => [.readInfo i, .op (.unlink .temp (.cmeta i))]

/-- state of the write submitted last -/
def lastSt (ws : List Worker) : Option WSt := ws.getLast?.map (·.st)

def anyRunning (ws : List Worker) : Bool := ws.any (·.st == .running)
def anyFailed (ws : List Worker) : Bool := ws.any (·.st == .failed)

/-- the FS operation the saver's head item issues next, if it issues one -/
def headOp (c : Cfg) : Option Op :=
  match c.prog with
  | .op o :: _ => some o
  | .rmList d _ :: _ => some (.listdir d)
  | .rmRmdir d _ :: _ => some (.rmdir d)
  | .flushOpen _ :: _ => some (.openTrunc .temp .md)
  | .flushWrite _ :: _ => some (.write .temp .md (.json c.md))
  | .flushClose _ :: _ => some (.close .temp .md)
  | .checkTemp :: _ => some (.existsDir .temp)
  | .collect :: _ => some (.glob .temp)
  | .readInfo i :: _ => some (.read .temp (.cmeta i))
  | _ => none

/-- steps of the un-awaited chunk writes -/
def stepOrph (c : Cfg) (k : Nat) (inject : Bool) : Option Cfg :=
  match c.orphans[k]? with
  | some w =>
    match w.st, w.ops with
    | .running, o :: rest =>
      if inject then some { c with orphans := c.orphans.set k { w with ops := [], st := .failed } }
      else
        match apply c.fs o with
        | .ok fs' =>
          some { c with fs := fs', orphans := c.orphans.set k { w with ops := rest, st := if rest.isEmpty then .ok else .running } }
        | .error _ => some { c with orphans := c.orphans.set k { w with ops := [], st := .failed } }
    | _, _ => none
  | none => none

/-- one step; `none` = the action is not enabled -/
def step (c : Cfg) : Act → Option Cfg
  | .sav =>
    match c.prog with
    | [] => none
    | .op o :: rest => some (c.doOp o rest)
    | .rmtreeIf d t :: rest =>
      match c.fs.dir d with
      | none => some { c with prog := rest }
      | some _ => some { c with prog := .rmList d t :: .unlinks d t :: .rmRmdir d t :: rest }
    | .moveFinalIf :: rest =>
      match c.fs.final with
      | none => some { c with prog := rest }
      | some _ =>
        some { c with prog := .op (.renameDir .final .temp) :: .rmList .temp true :: .unlinks .temp true
                                :: .rmRmdir .temp true :: rest }
    | .rmList d _ :: rest => some (c.doOp (.listdir d) rest)
    | .rmRmdir d _ :: rest => some (c.doOp (.rmdir d) rest)
    | .unlinks d _ :: rest =>
      match c.fs.dir d with
      | some (_ :: _) => none                         -- the scheduler must pick an entry (`rm n`)
      | _ => some { c with prog := rest }
    | .flushOpen _ :: rest => some (c.doOp (.openTrunc .temp .md) rest)
    | .flushWrite _ :: rest => some (c.doOp (.write .temp .md (.json c.md)) rest)
    | .flushClose _ :: rest => some (c.doOp (.close .temp .md) rest)
    | .armed :: rest => some { c with prog := rest, term := false }
    | .append ci :: rest => some { c with prog := rest, md := { c.md with chunks := c.md.chunks ++ [ci] } }
    | .submit i ops :: rest =>
      some { c with prog := rest, workers := c.workers ++ [⟨i, ops, if ops.isEmpty then .ok else .running⟩] }
    | .markUnreg :: rest => some { c with prog := rest, unreg := true }
    | .join :: rest =>
      match lastSt c.workers with
      | some .running => none
      | some .failed => some c.fail
      | _ => some { c with prog := rest }
    | .poll :: rest =>
      -- `f.result()` of the futures in `pending` that are done; the one just submitted joins `pending` afterwards
      if anyFailed (if c.unreg then c.workers.dropLast else c.workers) then some c.fail
      else some { c with prog := rest, unreg := false }
    | .waitAll :: rest =>
      if anyRunning c.workers then none
      else if anyFailed c.workers then some c.fail else some { c with prog := rest }
    | .waitQuiet :: rest => if anyRunning c.workers then none else some { c with prog := rest }
    | .markClosed :: rest =>
      some { c with prog := rest, term := true, md := { c.md with ended := true, exc := c.handling } }
    | .checkTemp :: rest => if c.fs.temp.isSome then some { c with prog := rest } else some c.opFail
    | .collect :: rest =>
      some { c with prog := collectItems (collectList (c.fs.temp.getD [])) ++ rest }
    | .readInfo i :: rest =>
      match c.fs.temp.bind (·.get (.cmeta i)) with
      | some (.info ci) => some { c with prog := rest, md := { c.md with chunks := c.md.chunks ++ [ci] } }
      | _ => some c.opFail
    | .finish :: rest =>
      -- inlined savers: the caller's outcome is decided by the mailbox readers, which re-raise the exception of
      -- a failed `do_compute` future (before the D35 fix nobody on the saver's side looked at it)
      some { c with prog := rest,
                    out := if c.handling || (c.spec.variant == .forked && anyFailed c.workers) then .raised else .success }
  | .savFail =>
    match c.prog with
    | [] => none
    | _ :: _ =>
      match headOp c with
      | some _ => some c.opFail
      | none => none
  | .abort =>
    match c.prog with
    | [] => none
    | _ :: _ => some c.fail
  | .rm n =>
    match c.prog with
    | .unlinks d _ :: _ =>
      match c.fs.dir d with
      | some dir =>
        if (dir.get n).isSome then some { c with fs := c.fs.setDir d (some (dir.del n)) } else none
      | none => none
    | _ => none
  | .rmFail n =>
    match c.prog with
    | .unlinks d _ :: _ =>
      match c.fs.dir d with
      | some dir => if (dir.get n).isSome then some c.opFail else none
      | none => none
    | _ => none
  | .wrk k =>
    match c.workers[k]? with
    | some w =>
      match w.st, w.ops with
      | .running, o :: rest =>
        match apply c.fs o with
        | .ok fs' =>
          some { c with fs := fs',
                        workers := c.workers.set k { w with ops := rest, st := if rest.isEmpty then .ok else .running } }
        | .error _ => some { c with failed := true, workers := c.workers.set k { w with ops := [], st := .failed } }
      | _, _ => none
    | none => none
  | .wrkFail k =>
    match c.workers[k]? with
    | some w =>
      match w.st, w.ops with
      | .running, _ :: _ => some { c with failed := true, workers := c.workers.set k { w with ops := [], st := .failed } }
      | _, _ => none
    | none => none
  | .orph k => stepOrph c k false
  | .orphFail k => stepOrph c k true

/-- run a list of actions; `none` if one of them is not enabled -/
def run (c : Cfg) : List Act → Option Cfg
  | [] => some c
  | a :: rest =>
    match step c a with
    | some c' => run c' rest
    | none => none

/-- nothing more will happen: the saver is through and no chunk write is in flight -/
def Cfg.terminal (c : Cfg) : Bool := c.prog.isEmpty && !anyRunning c.workers && !anyRunning c.orphans

/-! ## `make` on top of the saver -/

inductive Start where
  | stored                -- `find` succeeds: the data is loaded, nothing is written
  | corrupted             -- `find` raises something else than DataNotAvailable (D12): the request fails
  | save                  -- not available: compute and save
deriving DecidableEq, Repr, Inhabited

/-- what `Context.get_components` decides for a target that is to be saved when made (default
`overwrite="if_broken"`): `find` says not available ⇒ either nothing is there or what is there is broken,
and then `_can_overwrite` allows the saver to remove it. -/
def start (fs : FS) : Start :=
  match find fs with
  | .ok () => .stored
  | .error .dataNotAvailable => .save
  | .error _ => .corrupted

/-- D12 region: the final directory exists and has no metadata file -/
def D12 (fs : FS) : Bool :=
  match fs.final with
  | some d => (d.get .md).isNone
  | none => false

/-! ## deterministic scheduling and fault injection (for the driver and for `decide` witnesses) -/

/-- order in which rmtree unlinks the entries (the harness decides it; `os.scandir` order is arbitrary) -/
inductive RmOrder where
  | sorted | metaFirst | metaLast
deriving DecidableEq, Repr, Inhabited

/-- alphabetical order of the real file names: `<p>-00000i` < `<p>-00000i_temp` < `<p>-metadata.json` < `metadata_<p>-…` -/
def nameOrd : Name → Nat × Nat × Nat
  | .chunk i => (0, i, 0)
  | .tmp i => (0, i, 1)
  | .md => (1, 0, 0)
  | .cmeta i => (2, i, 0)

def nameLt (a b : Name) : Bool :=
  let x := nameOrd a
  let y := nameOrd b
  x.1 < y.1 || (x.1 == y.1 && (x.2.1 < y.2.1 || (x.2.1 == y.2.1 && x.2.2 < y.2.2)))

def minName (d : Dir) : Option Name :=
  d.foldl (fun acc e => match acc with
    | none => some e.1
    | some n => if nameLt e.1 n then some e.1 else some n) none

def pickRm (o : RmOrder) (d : Dir) : Option Name :=
  match o with
  | .sorted => minName d
  | .metaFirst => if (d.get .md).isSome then some .md else minName d
  | .metaLast =>
    match minName (d.filter (fun e => e.1 != .md)) with
    | some n => some n
    | none => minName d

/-- the next action of the eager scheduler: running chunk writes first (lowest index), then the saver -/
def autoAct (o : RmOrder) (c : Cfg) : Option Act :=
  match c.workers.findIdx? (·.st == .running) with
  | some k => some (.wrk k)
  | none =>
    match c.prog with
    | [] => (c.orphans.findIdx? (·.st == .running)).map .orph
    | .unlinks d _ :: _ =>
      match c.fs.dir d with
      | some (e :: rest) => (pickRm o (e :: rest)).map .rm
      | _ => some .sav
    | _ => some .sav

/-- the operation an action is about to issue -/
def actOp (c : Cfg) : Act → Option Op
  | .abort => none
  | .sav | .savFail =>
    match c.prog with
    | .unlinks _ _ :: _ => none
    | _ => headOp c
  | .rm n | .rmFail n =>
    match c.prog with
    | .unlinks d _ :: _ => some (.unlink d n)
    | _ => none
  | .wrk k | .wrkFail k => (c.workers[k]?).bind (·.ops.head?)
  | .orph k | .orphFail k => (c.orphans[k]?).bind (·.ops.head?)

def failOf : Act → Act
  | .sav => .savFail
  | .rm n => .rmFail n
  | .wrk k => .wrkFail k
  | .orph k => .orphFail k
  | a => a

inductive FaultKind where
  | exc | dieBefore | dieAfter
  | abort        -- once k operations have been issued an exception is thrown into the saver thread
  | skip         -- the thread that would issue operation k fails without issuing it (a pool task that raised earlier,
                 -- while saving another data type: this saver's write of that chunk never starts)
deriving DecidableEq, Repr, Inhabited

/-- a fault: the `k`-th FS operation (counted over the whole attempt, all threads) raises / is the last thing
before / after which the process dies -/
structure Fault where
  k : Nat
  kind : FaultKind
deriving DecidableEq, Repr, Inhabited

/-- the operation fault (exception at / death before / death after), if any, that is due when `nops` operations
have been issued -/
def dueFault (fts : List Fault) (nops : Nat) : Option Fault := fts.find? (fun f => f.k == nops && f.kind != .abort)

/-- is an exception thrown into the saver thread from elsewhere when `nops` operations have been issued? -/
def abortNow (fts : List Fault) (c : Cfg) (nops : Nat) : Bool :=
  -- the exception arrives between two calls into the saver: the bookkeeping that ends the current call
  -- (`armed`: the constructor returns; `poll`: `save_from` looks at its futures) still happens
  fts.any (fun f => f.k == nops && f.kind == .abort) && !c.handling && !c.prog.isEmpty
    && c.prog.head? != some .armed && c.prog.head? != some .poll && c.prog.head? != some .markUnreg

/-- result of a scheduled run: configuration, operations issued (newest first), did the process die -/
structure RunResult where
  cfg : Cfg
  log : List Op
  died : Bool
deriving Repr, Inhabited

/-- eager execution with faults at given operation indices (at most one operation fault and one abort per index) -/
def runAuto (o : RmOrder) (fts : List Fault) : Nat → Cfg → List Op → RunResult
  | 0, c, log => ⟨c, log, false⟩
  | fuel + 1, c, log =>
    if abortNow fts c log.length then
      match step c .abort with
      | some c' => runAuto o fts fuel c' log
      | none => ⟨c, log, false⟩
    else
    match autoAct o c with
    | none => ⟨c, log, false⟩
    | some a =>
      let log' := match actOp c a with
        | some op => op :: log
        | none => log
      let hit : Option FaultKind :=
        match dueFault fts log.length, actOp c a with
        | some f, some _ => some f.kind
        | _, _ => none
      match hit with
      | some .dieBefore => ⟨c, log, true⟩
      | some .exc =>
        match step c (failOf a) with
        | some c' => runAuto o fts fuel c' log'
        | none => ⟨c, log, false⟩
      | some .skip =>
        match step c (failOf a) with
        | some c' => runAuto o (fts.erase ⟨log.length, .skip⟩) fuel c' log
        | none => ⟨c, log, false⟩
      | some .dieAfter =>
        match step c a with
        | some c' => ⟨c', log', true⟩
        | none => ⟨c, log, false⟩
      | some .abort | none =>
        match step c a with
        | some c' => runAuto o fts fuel c' log'
        | none => ⟨c, log, false⟩

/-- enough fuel for every run of a program of this size -/
def fuelFor (c : Cfg) : Nat :=
  20 * (c.prog.length + c.spec.extra.length + 4) + 8 * ((c.fs.final.getD []).length + (c.fs.temp.getD []).length) + 64

/-- the caller's view of one `make` attempt -/
inductive Result where
  | success | raised | died | stored | corrupted
deriving DecidableEq, Repr, Inhabited

/-- one attempt at making the data from file-system state `fs` -/
def attempt (fs : FS) (v : Variant) (pr : Proto) (cs : List Chunk) (h : HandlerSpec) (o : RmOrder)
    (fts : List Fault) : RunResult × Result :=
  let c0 := initCfg fs v pr cs h
  match start fs with
  | .stored => (⟨{ c0 with prog := [], out := .success }, [], false⟩, .stored)
  | .corrupted => (⟨{ c0 with prog := [], out := .raised }, [], false⟩, .corrupted)
  | .save =>
    let r := runAuto o fts (fuelFor c0) c0 []
    (r, if r.died then .died else
        match r.cfg.out with
        | .success => .success
        | .raised => .raised
        | .running => .died)

end Strax.FS
