import StraxModel.Model.Basic
/-
  Theory T14 (property C18): hit finder, record links, data reduction, baselining and integration
  of `strax/processing/pulse_processing.py` and `strax/processing/data_reduction.py`, as the code
  exists today (including its odd corners: the never-reset `max_time`, `height` starting at 0, the
  wrap-around write `next_record[-1] = i`).

  Numbers: sample values, times and indices are unbounded `Int`/`Nat` (int16/int32/int64 wrap-around is
  not modelled).  Baselines, noise levels and thresholds are exact rationals `Q = num/den`; float32 /
  float64 arithmetic is *modelled* by exact arithmetic, so the model agrees with the code only where
  float arithmetic is exact (dyadic fractions of moderate size -- the only ones the harness generates).
  Import-free (core Lean only).
-/
namespace Strax.Pulse
open Strax

/-! ## exact rationals -/

/-- `num / den`, `den > 0` intended, not normalised. -/
structure Q where
  num : Int
  den : Nat
deriving Repr, DecidableEq, Inhabited

namespace Q
def ofInt (n : Int) : Q := ⟨n, 1⟩
def mul (a b : Q) : Q := ⟨a.num * b.num, a.den * b.den⟩
/-- `a ≤ b` -/
def le (a b : Q) : Bool := decide (a.num * b.den ≤ b.num * a.den)
/-- Python `max(a, b)` (value-wise) -/
def max (a b : Q) : Q := if a.le b then b else a
/-- `x >= a` for an integer sample `x` -/
def leInt (a : Q) (x : Int) : Bool := decide (a.num ≤ x * a.den)
/-- numerator of `a % 1` over the denominator `a.den` (Python modulo: result in `[0, 1)`) -/
def fracNum (a : Q) : Int := a.num % (a.den : Int)
/-- Python `int(a)`: truncation toward zero -/
def trunc (a : Q) : Int := Int.tdiv a.num a.den
/-- lowest terms, for printing only -/
def norm (a : Q) : Q :=
  let g := Nat.gcd a.num.natAbs a.den
  if g = 0 then a else ⟨a.num / (g : Int), a.den / g⟩
end Q

/-- `int(round(p/q))` under numba: round half to even (measured: 0.5→0, 1.5→2, 2.5→2). -/
def roundHalfEven (p : Int) (q : Nat) : Int :=
  let fl := p / (q : Int)
  let r := p % (q : Int)
  if 2 * r < q then fl
  else if 2 * r > q then fl + 1
  else if fl % 2 = 0 then fl else fl + 1

/-! ## records and hits -/

/-- A waveform record (`strax.record_dtype`).  `data` has `samples_per_record` entries in every record
of one array; only the first `length` of them are "in the record". -/
structure Record where
  time : Int
  length : Nat
  dt : Int
  channel : Int
  recordI : Int
  pulseLength : Int
  area : Int
  reductionLevel : Nat
  baseline : Q
  baselineRms : Q
  ampBitShift : Nat
  data : List Int
deriving Repr, DecidableEq, Inhabited

/-- the in-record samples `data[:length]` -/
def Record.samples (r : Record) : List Int := r.data.take r.length

/-- A hit (`strax.hit_dtype`).  `area` and `height` are exact rationals over the baseline's denominator. -/
structure Hit where
  time : Int
  length : Nat
  dt : Int
  channel : Int
  left : Nat
  right : Nat
  recordI : Nat
  area : Q
  height : Q
  threshold : Q
  maxTime : Int
deriving Repr, DecidableEq, Inhabited

/-- `samples_per_record = len(records[0]["data"])` -/
def samplesPerRecord : List Record → Nat
  | [] => 0
  | r :: _ => r.data.length

/-! ## find_hits -/

/-- threshold argument of `find_hits`: a number or a per-channel array -/
inductive ThrArg where
  | scalar (q : Q)
  | perCh (l : List Q)
deriving Repr, DecidableEq

def maxChannel : List Record → Int
  | [] => -1
  | [r] => r.channel
  | r :: rs => max r.channel (maxChannel rs)

/-- Resolution of the two threshold arguments to per-channel arrays, as in the `find_hits` wrapper. -/
def resolveThr (records : List Record) (amp hon : ThrArg) : Except Err (List Q × List Q) :=
  match amp, hon with
  | .perCh a, .perCh h => .ok (a, h)
  | .perCh a, .scalar h => .ok (a, List.replicate a.length h)
  | .scalar a, .perCh h => .ok (List.replicate h.length a, h)
  | .scalar a, .scalar h =>
    let n := maxChannel records + 1
    if n < 0 then .error .valueError      -- np.ones(negative)
    else .ok (List.replicate n.toNat a, List.replicate n.toNat h)

/-- `max(min_amplitude[ch], baseline_rms * min_height_over_noise[ch])` with the channel check in front. -/
def threshold (amp hon : List Q) (r : Record) : Except Err Q :=
  if r.channel < 0 then .error .other           -- negative index into the threshold arrays: outside the model
  else if r.channel ≥ amp.length then .error .valueError
  else match amp[r.channel.toNat]?, hon[r.channel.toNat]? with
    | some a, some h => .ok (Q.max a (r.baselineRms.mul h))
    | _, _ => .error .other                     -- `hon` shorter than `amp`: unchecked read, outside the model

/-- state of the inner loop: `start = some hit_start` iff `in_interval`; `area`, `height` are the integer
accumulators; `maxTime` is the variable `max_time`, which the code never resets. -/
structure ScanSt where
  start : Option Nat
  area : Int
  height : Int
  maxTime : Int
deriving Repr, DecidableEq

/-- the hit written to the buffer when an interval `[s, e)` closes -/
def mkHit (r : Record) (ri : Nat) (thr : Q) (s e : Nat) (area height maxTime : Int) : Hit :=
  let f := r.baseline.fracNum
  let d := r.baseline.den
  { time := r.time + (s : Int) * r.dt, length := e - s, dt := r.dt, channel := r.channel,
    left := s, right := e, recordI := ri,
    area := ⟨area * d + ((e - s : Nat) : Int) * f, d⟩,
    height := ⟨height * d + f, d⟩,
    threshold := thr, maxTime := maxTime }

/-- The sample loop of `_find_hits` over the remaining in-record samples `xs`, the current sample having
index `i`.  Returns the hits of the rest of the record and the final value of `max_time`.
`rest = []` is the test `i == n_samples - 1`. -/
def scanRec (r : Record) (ri : Nat) (thr : Q) : List Int → Nat → ScanSt → List Hit × Int
  | [], _, st => ([], st.maxTime)
  | x :: rest, i, st =>
    let sat := thr.leInt x
    -- `if not in_interval and satisfy_threshold:` start of a hit
    let st := if st.start.isNone && sat then
        { st with start := some i,
                  maxTime := if x > st.height then r.time + (i : Int) * r.dt else st.maxTime,
                  height := max x st.height }
      else st
    match st.start with
    | none => scanRec r ri thr rest (i + 1) st
    | some s =>
      if !sat then
        -- hit ends at the start of this sample
        let out := scanRec r ri thr rest (i + 1) ⟨none, 0, 0, st.maxTime⟩
        (mkHit r ri thr s i st.area st.height st.maxTime :: out.1, out.2)
      else
        let st := { st with area := st.area + x,
                            maxTime := if x > st.height then r.time + (i : Int) * r.dt else st.maxTime,
                            height := max x st.height }
        if rest.isEmpty then
          -- hit ends at the end of this sample because the record ends
          let out := scanRec r ri thr rest (i + 1) ⟨none, 0, 0, st.maxTime⟩
          (mkHit r ri thr s (i + 1) st.area st.height st.maxTime :: out.1, out.2)
        else scanRec r ri thr rest (i + 1) st

/-- one iteration of the record loop: channel check, threshold, length assertion, sample loop.
`area = height = 0` and `in_interval = False` at the top of every record; `max_time` carries over. -/
def recHits (amp hon : List Q) (r : Record) (ri : Nat) (mt : Int) : Except Err (List Hit × Int) :=
  match threshold amp hon r with
  | .error e => .error e
  | .ok thr =>
    if r.length > r.data.length then .error .assertionError
    else .ok (scanRec r ri thr r.samples 0 ⟨none, 0, 0, mt⟩)

/-- `_find_hits`: the record loop.  `mt` is `max_time` (0 before the first assignment, as observed under numba). -/
def findHitsLoop (amp hon : List Q) : List Record → Nat → Int → Except Err (List Hit)
  | [], _, _ => .ok []
  | r :: rs, ri, mt =>
    match recHits amp hon r ri mt with
    | .error e => .error e
    | .ok (hs, mt') =>
      match findHitsLoop amp hon rs (ri + 1) mt' with
      | .error e => .error e
      | .ok more => .ok (hs ++ more)

/-- `strax.find_hits(records, min_amplitude, min_height_over_noise)` -/
def findHits (records : List Record) (amp hon : ThrArg) : Except Err (List Hit) :=
  if records.isEmpty then .ok []
  else match resolveThr records amp hon with
    | .error e => .error e
    | .ok (a, h) => findHitsLoop a h records 0 0

/-! ## record_links -/

/-- Python indexing with a possibly negative index into an array of length `n` -/
def pyIndex (n : Nat) (k : Int) : Nat := if k < 0 then (k + n).toNat else k.toNat

/-- per-channel state of the loop in `record_links` -/
structure LinkSt where
  last : Int → Int   -- `last_record_seen[ch]` (−1 = none)
  exp : Int → Int    -- `expected_next_start[ch]` (0 initially)

def LinkSt.init : LinkSt := ⟨fun _ => -1, fun _ => 0⟩

/-- the state after looking at record `r` with index `i` -/
def LinkSt.see (st : LinkSt) (spr : Nat) (r : Record) (i : Nat) : LinkSt :=
  { last := fun c => if c = r.channel then (i : Int) else st.last c,
    exp := fun c => if c = r.channel then r.time + (spr : Int) * r.dt else st.exp c }

/-- The branch taken for record `r`: `none` = "starts a new pulse" or "start was cut away" (no link);
`some last_i` = the `elif r["time"] == expected_next_start[ch]` branch, with `last_i` possibly −1. -/
def linkDecision (st : LinkSt) (r : Record) : Option Int :=
  if r.recordI = 0 then none
  else if r.time = st.exp r.channel then some (st.last r.channel)
  else none

/-- decisions for all records, in order (first pass: they do not depend on the output arrays) -/
def linkDecisions (spr : Nat) : List Record → Nat → LinkSt → List (Option Int)
  | [], _, _ => []
  | r :: rs, i, st => linkDecision st r :: linkDecisions spr rs (i + 1) (st.see spr r i)

/-- `previous_record[i] = last_i` in the linking branch, `NO_RECORD_LINK` otherwise -/
def prevOf : Option Int → Int
  | none => -1
  | some l => l

/-- `next_record[last_i] = i` for every record `i` that took the linking branch, in order.
`last_i = −1` writes to the *last* element (Python negative indexing). -/
def nextWrites (n : Nat) : List (Option Int) → Nat → List Int → List Int
  | [], _, next => next
  | none :: ds, i, next => nextWrites n ds (i + 1) next
  | some l :: ds, i, next => nextWrites n ds (i + 1) (next.set (pyIndex n l) (i : Int))

/-- `strax.record_links(records)` → `(previous_record, next_record)`; `ValueError` on a negative channel. -/
def recordLinks (records : List Record) : Except Err (List Int × List Int) :=
  if records.any (fun r => decide (r.channel < 0)) then .error .valueError
  else
    let n := records.length
    let ds := linkDecisions (samplesPerRecord records) records 0 LinkSt.init
    .ok (ds.map prevOf, nextWrites n ds 0 (List.replicate n (-1)))

/-! ## cut_outside_hits -/

/-- `strax.overlap_indices(a1, n_a, b1, n_b)` -/
def overlapIndices (a1 nA b1 nB : Int) : Except Err ((Int × Int) × (Int × Int)) :=
  if nA < 0 ∨ nB < 0 then .error .valueError
  else if nA = 0 ∨ nB = 0 then .ok ((0, 0), (0, 0))
  else
    let s := a1 - b1
    if s ≤ -nA then .ok ((0, 0), (0, 0))
    else
      let bStart := max 0 s
      let bEnd := min nB (s + nA)
      if bStart ≥ bEnd then .ok ((0, 0), (0, 0))
      else .ok ((max 0 (-s), min nA (-s + nB)), (bStart, bEnd))

/-- `dst[a:b] = src[a:b]` for `0 ≤ a`, `0 ≤ b` (index `i` = position of the heads) -/
def copyRange : List Int → List Int → Nat → Nat → Nat → List Int
  | s :: ss, d :: ds, i, a, b => (if a ≤ i ∧ i < b then s else d) :: copyRange ss ds (i + 1) a b
  | _, ds, _, _, _ => ds

/-- `new[k]["data"][a:b] = old[k]["data"][a:b]` -/
def applyCopy (old new : List (List Int)) (k a b : Nat) : List (List Int) :=
  match old[k]? with
  | some src => new.modify k (fun dst => copyRange src dst 0 a b)
  | none => new

/-- `if link != NO_RECORD_LINK: new[link]["data"][a:b] = old[link]["data"][a:b]`; `link = none` stands for an
index outside the link array (cannot happen for hits that point into the record array). -/
def copyVia (old new : List (List Int)) (link : Option Int) (a b : Nat) : List (List Int) :=
  match link with
  | some p => if p ≠ -1 then applyCopy old new p.toNat a b else new
  | none => new

/-- the part of a hit `cut_outside_hits` looks at -/
structure HitRef where
  recordI : Nat
  left : Nat
  right : Nat
deriving Repr, DecidableEq

def Hit.ref (h : Hit) : HitRef := ⟨h.recordI, h.left, h.right⟩

/-- body of the hit loop of `_cut_outside_hits` -/
def cutHit (recs : List Record) (spr : Nat) (prev next : List Int) (old : List (List Int)) (le re : Int)
    (new : List (List Int)) (h : HitRef) : Except Err (List (List Int)) :=
  match recs[h.recordI]? with
  | none => .error .other      -- `record_i` outside the array: unchecked read, outside the model
  | some r =>
    let startKeep := (h.left : Int) - le
    let endKeep := (h.right : Int) + re
    match overlapIndices 0 r.length startKeep (endKeep - startKeep) with
    | .error e => .error e
    | .ok ((a, b), _) =>
      let new := applyCopy old new h.recordI a.toNat b.toNat
      -- keep samples in the previous record, if there is one:  data[start_keep:]
      let new :=
        if startKeep < 0 then copyVia old new prev[h.recordI]? (max ((spr : Int) + startKeep) 0).toNat spr
        else new
      -- same for the next record:  data[:end_keep - samples_per_record]
      let new :=
        if endKeep > spr then copyVia old new next[h.recordI]? 0 (min (endKeep - spr) spr).toNat
        else new
      .ok new

def cutLoop (recs : List Record) (spr : Nat) (prev next : List Int) (old : List (List Int)) (le re : Int) :
    List HitRef → List (List Int) → Except Err (List (List Int))
  | [], new => .ok new
  | h :: hs, new =>
    match cutHit recs spr prev next old le re new h with
    | .error e => .error e
    | .ok new' => cutLoop recs spr prev next old le re hs new'

/-- `ReductionLevel.HITS_ONLY` -/
def hitsOnly : Nat := 2

/-- the returned copy: every field but `data` and `reduction_level` taken over -/
def withData (r : Record) (d : List Int) : Record := { r with data := d, reductionLevel := hitsOnly }

def zipData : List Record → List (List Int) → List Record
  | r :: rs, d :: ds => withData r d :: zipData rs ds
  | _, _ => []

/-- `strax.cut_outside_hits(records, hits, left_extension, right_extension)` -/
def cutOutsideHits (records : List Record) (hits : List HitRef) (le re : Int) : Except Err (List Record) :=
  if records.isEmpty then .ok records
  else match recordLinks records with
    | .error e => .error e
    | .ok (prev, next) =>
      let old := records.map (·.data)
      let blank := records.map (fun r => List.replicate r.data.length (0 : Int))
      match cutLoop records (samplesPerRecord records) prev next old le re hits blank with
      | .error e => .error e
      | .ok new => .ok (zipData records new)

/-! ## integrate, zero_out_of_bounds, baseline -/

/-- `integrate`: `area = data.sum() * 2**shift + int(round((baseline % 1) * length))` -/
def integrateOne (r : Record) : Record :=
  { r with area := r.data.sum * (2 : Int) ^ r.ampBitShift
                   + roundHalfEven (r.baseline.fracNum * (r.length : Int)) r.baseline.den }

def integrate (records : List Record) : List Record := records.map integrateOne

/-- `zero_out_of_bounds`: `data[length:] = 0` -/
def zeroOne (r : Record) : Record :=
  if r.length < r.data.length then
    { r with data := r.data.take r.length ++ List.replicate (r.data.length - r.length) 0 }
  else r

def zeroOutOfBounds (records : List Record) : List Record := records.map zeroOne

/-- the noise level stored by `baseline`: the square root of an exact variance, or NaN -/
inductive Rms where
  | sqrtOf (variance : Q)
  | nan
deriving Repr, DecidableEq

/-- mean and variance of the first `k` samples (`w = d["data"][:baseline_samples]`, `w.mean()`, `w.std()²`) -/
def meanVar (data : List Int) (k : Nat) : Q × Q :=
  let w := data.take k
  let n := w.length
  let s := w.sum
  let s2 := (w.map fun x => x * x).sum
  (⟨s, n⟩, ⟨(n : Int) * s2 - s * s, n * n⟩)

/-- per-channel memory of `baseline`: `last_bl_in[ch]` and `seen_first[ch]` -/
structure BlSt where
  lastBl : Int → Q × Rms
  seen : Int → Bool

/-- `d["data"][:length] = sign * (d["data"][:length] - int(bl))`, `d["baseline"] = bl` -/
def subtractBaseline (r : Record) (bl : Q) (flip : Bool) : Record :=
  let f := fun (x : Int) => (if flip then -1 else 1) * (x - bl.trunc)
  { r with data := (r.data.take r.length).map f ++ r.data.drop r.length, baseline := bl }

/-- `strax.baseline(records, baseline_samples, flip, allow_sloppy_chunking, fallback_baseline)`.
Returns the modified records and, separately, the stored noise level of each.
`baseline_samples = 0` (mean of an empty slice) is outside the model. -/
def baselineLoop (k : Nat) (flip sloppy : Bool) (fallback : Int) :
    List Record → BlSt → Except Err (List (Record × Rms))
  | [], _ => .ok []
  | r :: rs, st =>
    if r.recordI = 0 then
      let mv := meanVar r.data k
      if mv.1.den = 0 then .error .other
      else
        let st' : BlSt := ⟨fun c => if c = r.channel then (mv.1, .sqrtOf mv.2) else st.lastBl c,
                           fun c => if c = r.channel then true else st.seen c⟩
        match baselineLoop k flip sloppy fallback rs st' with
        | .error e => .error e
        | .ok more => .ok ((subtractBaseline r mv.1 flip, .sqrtOf mv.2) :: more)
    else if st.seen r.channel then
      let (bl, rms) := st.lastBl r.channel
      match baselineLoop k flip sloppy fallback rs st with
      | .error e => .error e
      | .ok more => .ok ((subtractBaseline r bl flip, rms) :: more)
    else if !sloppy then .error .runtimeError
    else
      -- `bl = last_bl_in[ch] = fallback_baseline`, `rms = nan`.  The write to `last_bl_in` is never read:
      -- it is read only once `seen_first[ch]` holds, and the record that sets that flag overwrites it.
      match baselineLoop k flip sloppy fallback rs st with
      | .error e => .error e
      | .ok more => .ok ((subtractBaseline r (Q.ofInt fallback) flip, .nan) :: more)

def baseline (records : List Record) (k : Nat) (flip sloppy : Bool) (fallback : Int) :
    Except Err (List (Record × Rms)) :=
  if records.any (fun r => decide (r.channel < 0)) then .error .other   -- negative channel: outside the model
  else baselineLoop k flip sloppy fallback records ⟨fun _ => (⟨0, 1⟩, .sqrtOf ⟨0, 1⟩), fun _ => false⟩

end Strax.Pulse
