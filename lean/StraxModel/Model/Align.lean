import StraxModel.Model.Chunk
/-
  Model of `strax.Plugin.iter` (input buffering, pacemaker, trimming, merging by kind) together
  with the time-range check of `Plugin.do_compute` — theory T4 "Align" (C08, reused by C09 / C01).

  The model follows /repo/strax/plugins/plugin.py line by line:

      input_buffer = {d: None for d in depends_on}
      pacemaker, _end = None, inf
      for d in depends_on:                                   -- `initFetch`, `choosePm`
          _fetch_chunk(d, iters)
          if input_buffer[d] is None: raise ValueError
          if input_buffer[d].end < _end: pacemaker, _end = d, input_buffer[d].end
      for chunk_i in count():                                -- `iterLoop` (recursion on the
          if chunk_i != 0:                                   --  pacemaker's remaining chunks)
              if not _fetch_chunk(pacemaker, iters): raise IterDone
          this_chunk_end = input_buffer[pacemaker].end
          for d in depends_on:                               -- `prepDep`
              if d != pacemaker:
                  while input_buffer[d].end < this_chunk_end:          -- `fetchUntil`
                      _fetch_chunk(d, iters, check_end_not_before=this_chunk_end)
              inputs[d], input_buffer[d] = input_buffer[d].split(this_chunk_end, allow_early_split=True)
          max_passes_left = 10                               -- `retrim` (literal fuel)
          while max_passes_left > 0:
              all_ends = [x.end for x in inputs.values()]
              this_chunk_end = min(all_ends + [this_chunk_end])
              if len(set(all_ends)) <= 1: break
              for d in depends_on:                           -- `trimDep`
                  inputs[d], back = inputs[d].split(this_chunk_end, allow_early_split=True)
                  input_buffer[d] = Chunk.concatenate([back, input_buffer[d]])
              max_passes_left -= 1
          else: raise RuntimeError
          inputs_merged = {kind: Chunk.merge([inputs[d] for d in ds]) for kind, ds in deps_by_kind}
          yield do_compute(**inputs_merged)                  -- `computeRange`
      except IterDone:                                       -- `finish`
          for d in iters: if _fetch_chunk(d, iters): raise RuntimeError
          if save_when > EXPLICIT:
              for d, b in input_buffer.items(): if b is not None and len(b): raise RuntimeError

  The dependencies are kept in a zipper `pre ++ [pacemaker] ++ post` (in `depends_on` order) so
  that the pacemaker is a field, not an index, and the main loop is structurally recursive on the
  pacemaker's remaining chunks.  Import-free apart from the chunk model.
-/
namespace Strax.Align
open Strax

/-- a dependency: data type name and data kind -/
structure Dep where
  name : String
  kind : String
deriving Repr, DecidableEq, Inhabited

/-- per dependency: the chunks its iterator has not produced yet, and `input_buffer[d]` -/
structure DepState where
  dep : Dep
  rem : List Chunk
  buf : Chunk
deriving Repr, DecidableEq, Inhabited

/-- one call of `compute`: the `start` / `end` handed over and, per dependency in `depends_on`
order, the rows handed over; `ranges` are the `[start, end)` of the per-dependency input chunks
(what `Chunk.merge` and `do_compute` compare). -/
structure Call where
  start : Int
  stop : Int
  rows : List (List Row)
  ranges : List (Int × Int)
deriving Repr, DecidableEq, Inhabited

/-- the whole run: the calls, and per dependency the rows still in the input buffer at the end
(only a plugin that is not saved by default may end with a non-empty leftover) -/
structure Result where
  calls : List Call
  leftover : List (List Row)
deriving Repr, DecidableEq, Inhabited

/-! ### small control-flow helpers (no `do` blocks: every branch is visible to the proofs) -/

/-- `for x in xs: ys.append(f x)` where `f` may raise: stops at the first error -/
def mapE {α β : Type} (f : α → Except Err β) : List α → Except Err (List β)
  | [] => .ok []
  | a :: as =>
    match f a with
    | .error e => .error e
    | .ok b =>
      match mapE f as with
      | .error e => .error e
      | .ok bs => .ok (b :: bs)

/-- dependencies in `depends_on` order with the pacemaker singled out -/
structure Zip (α : Type) where
  pre : List α
  pm : α
  post : List α
deriving Repr, DecidableEq

def Zip.toList {α : Type} (z : Zip α) : List α := z.pre ++ z.pm :: z.post

/-- `for d in depends_on: …` over the zipper; `f true` is applied to the pacemaker -/
def Zip.mapE {α β : Type} (f : Bool → α → Except Err β) (z : Zip α) : Except Err (Zip β) :=
  match Align.mapE (f false) z.pre with
  | .error e => .error e
  | .ok pre =>
    match f true z.pm with
    | .error e => .error e
    | .ok pm =>
      match Align.mapE (f false) z.post with
      | .error e => .error e
      | .ok post => .ok ⟨pre, pm, post⟩

/-! ### `_fetch_chunk` -/

/-- first `_fetch_chunk(d, iters)`: the buffer is `None`, `concatenate([None, c]) = c`;
an empty iterator leaves the buffer `None`, which `iter` answers with `ValueError`. -/
def initFetch (p : Dep × List Chunk) : Except Err DepState :=
  match p.2 with
  | [] => .error .valueError
  | c :: rest => .ok ⟨p.1, rest, c⟩

/-- `_fetch_chunk(d, iters, check_end_not_before)` with a non-`None` buffer.
Returns whether a chunk was fetched. -/
def fetch (s : DepState) (check : Option Int) : Except Err (Bool × DepState) :=
  match s.rem with
  | c :: rest =>
    match concatenate [s.buf, c] false with
    | .error e => .error e
    | .ok b => .ok (true, ⟨s.dep, rest, b⟩)
  | [] =>
    match check with
    | some t => if s.buf.stop < t then .error .runtimeError else .ok (false, s)
    | none => .ok (false, s)

/-- `while input_buffer[d].end < t: _fetch_chunk(d, iters, check_end_not_before=t)`.
With an exhausted iterator the loop condition and the check coincide, so the call raises. -/
def fetchUntil (t : Int) : List Chunk → Chunk → Except Err (List Chunk × Chunk)
  | [], buf => if buf.stop < t then .error .runtimeError else .ok ([], buf)
  | c :: rest, buf =>
    if buf.stop < t then
      match concatenate [buf, c] false with
      | .error e => .error e
      | .ok b => fetchUntil t rest b
    else .ok (c :: rest, buf)

/-! ### pacemaker choice -/

/-- left-to-right scan with strict `<`: the first dependency with the smallest buffer end wins -/
def choosePm : Option (Zip DepState) → List DepState → Option (Zip DepState)
  | acc, [] => acc
  | none, s :: rest => choosePm (some ⟨[], s, []⟩) rest
  | some z, s :: rest =>
    if s.buf.stop < z.pm.buf.stop then choosePm (some ⟨z.toList, s, []⟩) rest
    else choosePm (some ⟨z.pre, z.pm, z.post ++ [s]⟩) rest

/-! ### one iteration -/

/-- body of `for d in self.depends_on` before the trimming loop -/
def prepDep (t : Int) (isPm : Bool) (s : DepState) : Except Err (Chunk × DepState) :=
  match (if isPm then .ok (s.rem, s.buf) else fetchUntil t s.rem s.buf) with
  | .error e => .error e
  | .ok (rem, buf) =>
    match buf.split t true with
    | .error e => .error e
    | .ok (inp, back) => .ok (inp, ⟨s.dep, rem, back⟩)

/-- body of `for d in self.depends_on` inside the trimming loop -/
def trimDep (t : Int) (_isPm : Bool) (p : Chunk × DepState) : Except Err (Chunk × DepState) :=
  match p.1.split t true with
  | .error e => .error e
  | .ok (inp, back) =>
    match concatenate [back, p.2.buf] false with
    | .error e => .error e
    | .ok b => .ok (inp, ⟨p.2.dep, p.2.rem, b⟩)

/-- `min(all_ends + [t])` -/
def minWith (t : Int) (l : List Int) : Int := l.foldl min t
/-- `max(l + [t])` -/
def maxWith (t : Int) (l : List Int) : Int := l.foldl max t

def inputEnds (z : Zip (Chunk × DepState)) : List Int := z.toList.map (·.1.stop)

/-- the `while max_passes_left > 0: … else: raise RuntimeError` loop; the first argument is
`max_passes_left` (the literal 10 in the code, see `maxPasses`) -/
def retrim : Nat → Int → Zip (Chunk × DepState) → Except Err (Zip (Chunk × DepState))
  | 0, _, _ => .error .runtimeError
  | n + 1, t, z =>
    let t := minWith t (inputEnds z)
    if allEq (inputEnds z) then .ok z
    else
      match z.mapE (trimDep t) with
      | .error e => .error e
      | .ok z' => retrim n t z'

/-- kinds in order of first appearance (`group_by_kind` builds an insertion-ordered dict) -/
def kindsOf : List String → List String → List String
  | _, [] => []
  | seen, k :: rest => if seen.contains k then kindsOf seen rest else k :: kindsOf (k :: seen) rest

/-- `{kind: Chunk.merge([inputs[d] for d in deps_of_kind])}` in dict order -/
def mergeByKind (inputs : List (Chunk × DepState)) : Except Err (List Chunk) :=
  mapE (fun k => mergeChunks ((inputs.filter (fun p => p.2.dep.kind == k)).map (·.1)) "<UNKNOWN>")
    (kindsOf [] (inputs.map (·.2.dep.kind)))

/-- the part of `do_compute` before `compute` is called: time range handed to `compute`
(strict for plugins saved by default, tolerant otherwise) and `_check_subruns_uniqueness`. -/
def computeRange (strict : Bool) (merged : List Chunk) : Except Err (Int × Int) :=
  match merged with
  | [] => .error .other    -- a plugin without dependencies: outside this model
  | m0 :: _ =>
    let consistent := allEq (merged.map (fun m => (m.start, m.stop)))
    if strict && !consistent then .error .valueError
    else if !allEq (merged.map (·.superrun)) then .error .valueError
    else if !allEq (merged.map (·.subruns)) then .error .valueError
    else if consistent then .ok (m0.start, m0.stop)
    else .ok (minWith m0.start (merged.map (·.start)), maxWith m0.stop (merged.map (·.stop)))

/-- `max_passes_left = 10` -/
def maxPasses : Nat := 10

/-- everything between the pacemaker fetch and the `yield`; `passes` = `max_passes_left` -/
def iterBody (passes : Nat) (strict : Bool) (z : Zip DepState) : Except Err (Call × Zip DepState) :=
  let t := z.pm.buf.stop
  match z.mapE (prepDep t) with
  | .error e => .error e
  | .ok zi =>
    match retrim passes t zi with
    | .error e => .error e
    | .ok zi =>
      match mergeByKind zi.toList with
      | .error e => .error e
      | .ok merged =>
        match computeRange strict merged with
        | .error e => .error e
        | .ok (s, e) =>
          .ok (⟨s, e, zi.toList.map (·.1.rows), zi.toList.map (fun p => (p.1.start, p.1.stop))⟩,
               ⟨zi.pre.map (·.2), zi.pm.2, zi.post.map (·.2)⟩)

/-- `for d in iters: if self._fetch_chunk(d, iters): raise RuntimeError` -/
def checkExhausted : List DepState → Except Err Unit
  | [] => .ok ()
  | s :: rest =>
    match s.rem with
    | [] => checkExhausted rest
    | c :: _ =>
      match concatenate [s.buf, c] false with
      | .error e => .error e
      | .ok _ => .error .runtimeError

/-- the `except IterDone` block -/
def finish (strict : Bool) (sts : List DepState) : Except Err (List (List Row)) :=
  match checkExhausted sts with
  | .error e => .error e
  | .ok () =>
    if strict && sts.any (fun s => !s.buf.rows.isEmpty) then .error .runtimeError
    else .ok (sts.map (·.buf.rows))

/-- iterations 1, 2, …: fetch the pacemaker (structural recursion on its remaining chunks),
then the body.  Returns the calls and the final states. -/
def iterLoop (passes : Nat) (strict : Bool) : List Chunk → List DepState → Dep → Chunk → List DepState →
    Except Err (List Call × List DepState)
  | [], pre, d, buf, post => .ok ([], pre ++ ⟨d, [], buf⟩ :: post)      -- IterDone
  | c :: rest, pre, d, buf, post =>
    match concatenate [buf, c] false with
    | .error e => .error e
    | .ok buf =>
      match iterBody passes strict ⟨pre, ⟨d, rest, buf⟩, post⟩ with
      | .error e => .error e
      | .ok (call, z) =>
        match iterLoop passes strict rest z.pre z.pm.dep z.pm.buf z.post with
        | .error e => .error e
        | .ok (calls, fin) => .ok (call :: calls, fin)

/-- `Plugin.iter` on already-initialised buffers with a chosen pacemaker -/
def iterFrom (passes : Nat) (strict : Bool) (z : Zip DepState) : Except Err Result :=
  match iterBody passes strict z with             -- chunk 0: the pacemaker was fetched already
  | .error e => .error e
  | .ok (call, z) =>
    match iterLoop passes strict z.pm.rem z.pre z.pm.dep z.pm.buf z.post with
    | .error e => .error e
    | .ok (calls, fin) =>
      match finish strict fin with
      | .error e => .error e
      | .ok left => .ok ⟨call :: calls, left⟩

/-- `Plugin.iter` driven to the end: calls and leftover.  `chunks` is parallel to `deps`
(a missing list is an iterator that yields nothing). `strict` = `save_when > EXPLICIT`. -/
def iterRunP (passes : Nat) (deps : List Dep) (chunks : List (List Chunk)) (strict : Bool) :
    Except Err Result :=
  match mapE initFetch (deps.zip chunks) with
  | .error e => .error e
  | .ok sts =>
    match choosePm none sts with
    | none => .error .other            -- no dependencies: outside this model
    | some z => iterFrom passes strict z

/-- the code as it is: ten passes -/
def iterRun (deps : List Dep) (chunks : List (List Chunk)) (strict : Bool) : Except Err Result :=
  iterRunP maxPasses deps chunks strict

/-- the list of `compute` calls made by `Plugin.iter` -/
def iterModel (deps : List Dep) (chunks : List (List Chunk)) (strict : Bool) : Except Err (List Call) :=
  match iterRun deps chunks strict with
  | .error e => .error e
  | .ok r => .ok r.calls

/-- `save_when > SaveWhen.EXPLICIT`, with `max(save_when.values())` for a multi-output plugin:
`NEVER = 0`, `EXPLICIT = 1`, `TARGET = 2`, `ALWAYS = 3`; one entry per provided data type.
(Both `Plugin.iter`'s leftover check and `do_compute`'s range check compute exactly this.) -/
def saveWhenStrict (saveWhen : List Nat) : Bool := decide (1 < saveWhen.foldl max 0)

/-! ### hypotheses of the theorems, as decidable predicates -/

def chunkOKB (c : Chunk) : Bool :=
  decide (0 ≤ c.start) && decide (c.start ≤ c.stop) &&
    c.rows.all (fun r => decide (c.start ≤ r.time) && decide (r.time < r.endt) && decide (r.endt ≤ c.stop))

def adjacentB : List Chunk → Bool
  | a :: b :: rest => decide (a.stop = b.start) && adjacentB (b :: rest)
  | _ => true

/-- the laws of chunking for one dependency's chunk list (DESIGN §6): non-negative start,
`start ≤ end`, consecutive chunks adjacent, every row of positive duration inside its chunk,
all rows sorted by time. -/
def lawAbidingB (cs : List Chunk) : Bool :=
  cs.all chunkOKB && adjacentB cs && sortedByTimeB (cs.flatMap (·.rows))

def LawAbiding (cs : List Chunk) : Prop := lawAbidingB cs = true
instance (cs : List Chunk) : Decidable (LawAbiding cs) := by unfold LawAbiding; infer_instance

/-- every dependency has at least one chunk and the first chunks all start at `t0` -/
def startAtB (t0 : Int) (chunks : List (List Chunk)) : Bool :=
  chunks.all fun cs => match cs with
    | [] => false
    | c :: _ => decide (c.start = t0)

def StartAt (t0 : Int) (chunks : List (List Chunk)) : Prop := startAtB t0 chunks = true
instance (t0 : Int) (chunks : List (List Chunk)) : Decidable (StartAt t0 chunks) := by
  unfold StartAt; infer_instance

/-- all rows of a chunk list, in order -/
def allRows (cs : List Chunk) : List Row := cs.flatMap (·.rows)

/-! ### vocabulary of the theorems (Props/C08.lean) -/

/-- what is in flight for one dependency: the rows in its buffer followed by the rows of the
chunks its iterator has not produced yet -/
def content (s : DepState) : List Row := s.buf.rows ++ allRows s.rem

/-- per dependency: the rows handed over by `calls`, in call order, followed by `tail` -/
def handedOver (calls : List Call) (tail : List (List Row)) : List (List Row) :=
  calls.foldr (fun c acc => List.zipWith (· ++ ·) c.rows acc) tail

/-- the rows of dependency number `i` in one call (no rows if the call has no such dependency;
`calls_shape` shows every call has exactly one entry per dependency) -/
def Call.rowsOf (c : Call) (i : Nat) : List Row :=
  match c.rows[i]? with
  | some r => r
  | none => []

/-- alignment of one call with respect to the dependency list: one row list and one input range
per dependency, every input chunk covers exactly `[start, stop)` of the call, and dependencies of
the same kind hand over equally many rows (they were merged column-wise by `Chunk.merge`) -/
def Call.Aligned (deps : List Dep) (c : Call) : Prop :=
  c.rows.length = deps.length ∧ c.ranges.length = deps.length ∧
  (∀ r ∈ c.ranges, r = (c.start, c.stop)) ∧
  (∀ i j di dj, deps[i]? = some di → deps[j]? = some dj → di.kind = dj.kind →
    (c.rowsOf i).length = (c.rowsOf j).length)

/-- the interval of a row -/
def iv (r : Row) : Int × Int := (r.time, r.endt)

/-- same-kind dependencies describe the same things: their rows over the whole run are
interval-equal (what `Chunk.merge` silently assumes when it zips them) -/
def kindAlignedB (deps : List Dep) (chunks : List (List Chunk)) : Bool :=
  (deps.zip chunks).all fun p => (deps.zip chunks).all fun q =>
    p.1.kind != q.1.kind || (allRows p.2).map iv == (allRows q.2).map iv

/-- rows of the chunk a merge-only plugin makes from one call when all dependencies are of one
kind: `Chunk.merge` takes the time fields from the LAST input and the identity from the first
(same body as `Strax.Selection.mergedRows`) -/
def mergedRowsOf (c : Call) : List Row :=
  match c.rows with
  | [] => []
  | first :: rest => zipRows first ((first :: rest).getLast (by simp))

/-- calls tile time from `t` on: the first starts at `t`, each next one where the previous ended -/
def adjacentFrom : Int → List Call → Prop
  | _, [] => True
  | t, c :: cs => c.start = t ∧ adjacentFrom c.stop cs

/-- where the last call ended (`t` if there is no call) -/
def lastStop : Int → List Call → Int
  | t, [] => t
  | _, c :: cs => lastStop c.stop cs

instance instDecEqExcept {ε α : Type} [DecidableEq ε] [DecidableEq α] : DecidableEq (Except ε α)
  | .ok a, .ok b =>
    if h : a = b then isTrue (by rw [h]) else isFalse (by intro h'; injection h' with h'; exact h h')
  | .error a, .error b =>
    if h : a = b then isTrue (by rw [h]) else isFalse (by intro h'; injection h' with h'; exact h h')
  | .ok _, .error _ => isFalse (by intro h; cases h)
  | .error _, .ok _ => isFalse (by intro h; cases h)

/-! ### concrete witnesses used by the non-vacuity examples and counterexamples of Props/C08 -/

/-- a plain chunk of run "0" as `strax.Chunk(...)` builds it (superrun = its own range) -/
def plainChunk (dt k : String) (s e : Int) (rows : List Row) : Chunk :=
  ⟨dt, k, some "0", s, e, rows, none, [⟨"0", s, e⟩], 1000⟩

def witnessDeps : List Dep := [⟨"a", "ka"⟩, ⟨"b", "kb"⟩]

/-- D9 in small: rows of two kinds in a brick pattern, cut at 12 and 13 -/
def brickA : List Chunk :=
  [plainChunk "a" "ka" 0 12 [⟨0, 2, 0⟩, ⟨2, 4, 1⟩, ⟨4, 6, 2⟩, ⟨6, 8, 3⟩, ⟨8, 10, 4⟩, ⟨10, 12, 5⟩],
   plainChunk "a" "ka" 12 13 []]
def brickB : List Chunk :=
  [plainChunk "b" "kb" 0 13 [⟨1, 3, 0⟩, ⟨3, 5, 1⟩, ⟨5, 7, 2⟩, ⟨7, 9, 3⟩, ⟨9, 11, 4⟩, ⟨11, 13, 5⟩]]

/-- an ordinary run: `a` in two chunks, `b` in one, a row of `b` straddling the cut of `a` -/
def plainA : List Chunk :=
  [plainChunk "a" "ka" 0 5 [⟨0, 2, 0⟩, ⟨3, 5, 1⟩], plainChunk "a" "ka" 5 10 [⟨6, 8, 2⟩]]
def plainB : List Chunk := [plainChunk "b" "kb" 0 10 [⟨1, 4, 0⟩, ⟨4, 7, 1⟩]]

/-- dependencies ending at different times: `b` goes on to 14 with one more row -/
def longB : List Chunk := [plainChunk "b" "kb" 0 14 [⟨1, 4, 0⟩, ⟨4, 7, 1⟩, ⟨11, 13, 2⟩]]
/-- `b` goes on to 14 but has no row after 10 -/
def longEmptyB : List Chunk := [plainChunk "b" "kb" 0 14 [⟨1, 4, 0⟩, ⟨4, 7, 1⟩]]

/-- "the re-trim loop does not run out of its ten passes": giving the loop more passes does not
change the outcome.  Implied by an `ok` result (see Props/C08 `ok_passes_suffice`); it is the
hypothesis of the totality statements and is false exactly on brick-pattern inputs (D9). -/
def sameOutcome : Except Err Result → Except Err Result → Bool
  | .ok a, .ok b => a == b
  | .error a, .error b => a == b
  | _, _ => false

/-- the run fails with ten passes ONLY because of the pass budget: it is the `RuntimeError` with
the literal ten, and with a budget that always suffices (`retrim_terminates`) the same input runs
to the end.  This is the D9 situation and nothing else. -/
def tenPassOnlyB (deps : List Dep) (chunks : List (List Chunk)) (strict : Bool) : Bool :=
  (match iterRunP maxPasses deps chunks strict with
   | .error .runtimeError => true
   | _ => false) &&
  (match iterRunP (maxPasses + (chunks.map allRows).flatten.length + 2) deps chunks strict with
   | .ok _ => true
   | .error _ => false)

def passesSufficeB (deps : List Dep) (chunks : List (List Chunk)) (strict : Bool) : Bool :=
  sameOutcome (iterRunP maxPasses deps chunks strict)
    (iterRunP (maxPasses + (chunks.map allRows).flatten.length + 2) deps chunks strict)

end Strax.Align
