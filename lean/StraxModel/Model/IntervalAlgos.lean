import StraxModel.Model.Rechunk
/-
  T13 — models of the interval kernels of `strax/processing/general.py` (property C17).

  Every numba two-pointer loop is a structural recursion over the array the outer `for` walks,
  carrying the *not yet consumed suffix* of the other array together with the numeric value of
  the pointer (`b_i`, `left_i`, `right_i`, `veto_intervals_seen`), so that the shape of the
  code (`while … and …: i += 1`, `break`, `continue`, results pre-filled with -1 / 0) is kept.
  The checking wrappers (`fully_contained_in`, `split_by_containment`, `touching_windows`,
  `abs_time_to_prev_next_interval`) return `Except Err …`; warnings are not modelled.

  `strax.diff` is `Strax.diffGaps` (Model/Rechunk.lean) and is reused, not duplicated.
-/
namespace Strax.IntervalAlgos
open Strax

/-! ### decidable preconditions (what the `_check_*` helpers test) -/

/-- `_check_time_is_sorted(endtime(x))` -/
def sortedByEndB : List Row → Bool
  | [] => true
  | [_] => true
  | a :: b :: rest => decide (a.endt ≤ b.endt) && sortedByEndB (b :: rest)

/-- `_check_objects_non_negative_length` -/
def nonNegB (rows : List Row) : Bool := rows.all fun r => decide (r.time ≤ r.endt)

/-- `_check_objects_are_not_overlapping`: `time[1:] - endtime[:-1] >= 0` -/
def nonOverlapB : List Row → Bool
  | [] => true
  | [_] => true
  | a :: b :: rest => decide (a.endt ≤ b.time) && nonOverlapB (b :: rest)

/-! ### `_fc_in` / `fully_contained_in` -/

/-- `while b_i < len(b_starts) and b_ends[b_i] <= a_starts[a_i]: b_i += 1`.
The containers are passed as the suffix starting at `b_i`. -/
def skipContainers (aStart : Int) : List Row → Nat → List Row × Nat
  | [], bi => ([], bi)
  | b :: bs, bi => if b.endt ≤ aStart then skipContainers aStart bs (bi + 1) else (b :: bs, bi)

/-- the `for a_i in range(len(a_starts))` loop of `_fc_in`; `result` is pre-filled with -1 -/
def fcInLoop : List Row → List Row → Nat → List Int
  | [], _, _ => []
  | a :: as, bs, bi =>
    match skipContainers a.time bs bi with
    | ([], _) => (a :: as).map fun _ => (-1 : Int)      -- `if b_i == len(b_starts): break`
    | (b :: bs', bi') =>
      (if b.time ≤ a.time ∧ a.endt ≤ b.endt then (bi' : Int) else -1) :: fcInLoop as (b :: bs') bi'

/-- `_fully_contained_in(things, containers)` -/
def fcInCore (things containers : List Row) : List Int := fcInLoop things containers 0

/-- `_fully_contained_in_sanity`: unsorted times and negative lengths are `ValueError`s;
overlapping containers only give a warning. -/
def sanity (things containers : List Row) : Except Err Unit :=
  if !sortedByTimeB things then throw Err.valueError
  else if !sortedByTimeB containers then throw Err.valueError
  else if !nonNegB things then throw Err.valueError
  else if !nonNegB containers then throw Err.valueError
  else pure ()

/-- `fully_contained_in(things, containers)` -/
def fullyContainedIn (things containers : List Row) : Except Err (List Int) :=
  match sanity things containers with
  | .error e => .error e
  | .ok () => .ok (fcInCore things containers)

/-! ### `split_by_containment` -/

/-- `np.where(np.diff(which))[0] + 1`; `i` is the index of the head of the list -/
def splitIndicesAux : List Int → Nat → List Nat
  | a :: b :: rest, i =>
    if b - a ≠ 0 then (i + 1) :: splitIndicesAux (b :: rest) (i + 1)
    else splitIndicesAux (b :: rest) (i + 1)
  | _, _ => []

def splitIndices (which : List Int) : List Nat := splitIndicesAux which 0

/-- the `for si in split_indices` loop of `_split` followed by the tail -/
def splitLoop (things : List α) : Nat → List Nat → List (List α)
  | prev, [] => if prev < things.length then [things.drop prev] else []
  | prev, si :: rest => ((things.take si).drop prev) :: splitLoop things si rest   -- things[prev:si]

/-- `_split(things, split_indices)` -/
def split (things : List α) (splitIdx : List Nat) : List (List α) :=
  if splitIdx.isEmpty then [things] else splitLoop things 0 splitIdx

/-- `np.unique` of an int array: ascending, without repetitions (insertion into a sorted list) -/
def insertUnique (x : Int) : List Int → List Int
  | [] => [x]
  | y :: ys => if x < y then x :: y :: ys else if x = y then y :: ys else y :: insertUnique x ys

def unique (l : List Int) : List Int := l.foldr insertUnique []

/-- the `for fid in full_container_ids` loop of `_get_empty_container_ids` and its tail.
`np.arange(prev_fid, fid)` is empty when `fid ≤ prev_fid`, which is what `List.range'` with the
truncated difference gives; `n_empty` is the length of what has been written so far. -/
def emptyIdsLoop (nContainers : Nat) : Nat → List Nat → List Nat
  | prev, [] => if prev < nContainers then List.range' prev (nContainers - prev) else []
  | prev, fid :: rest => List.range' prev (fid - prev) ++ emptyIdsLoop nContainers (fid + 1) rest

/-- `_get_empty_container_ids(n_containers, full_container_ids)` (ids ascending, as from `np.unique`) -/
def getEmptyContainerIds (nContainers : Nat) (full : List Nat) : List Nat :=
  emptyIdsLoop nContainers 0 full

/-- Python `list.insert(i, x)` for `i ≥ 0` (clamps to the end) -/
def pyInsert (l : List α) (i : Nat) (x : α) : List α := l.take i ++ x :: l.drop i

/-- `_split_by_containment(things, containers)` -/
def splitByContainmentCore (things containers : List Row) : List (List Row) :=
  let which := fcInCore things containers
  let kept := (things.zip which).filter fun p => p.2 != -1        -- mask = which_container != -1
  let things' := kept.map (·.1)
  let which' := kept.map (·.2)
  if things'.isEmpty then containers.map fun _ => []
  else
    let parts := split things' (splitIndices which')
    let empties := getEmptyContainerIds containers.length ((unique which').map Int.toNat)
    empties.foldl (fun acc c => pyInsert acc c []) parts

/-- `split_by_containment(things, containers)` -/
def splitByContainment (things containers : List Row) : Except Err (List (List Row)) :=
  match sanity things containers with
  | .error e => .error e
  | .ok () => if containers.isEmpty then .ok [] else .ok (splitByContainmentCore things containers)

/-! ### `overlap_indices` -/

/-- `overlap_indices(a1, n_a, b1, n_b)` → `((a_start, a_end), (b_start, b_end))` -/
def overlapIndices (a1 nA b1 nB : Int) : Except Err ((Int × Int) × (Int × Int)) :=
  if nA < 0 ∨ nB < 0 then throw Err.valueError
  else if nA = 0 ∨ nB = 0 then pure ((0, 0), (0, 0))
  else
    let s := a1 - b1
    if s ≤ -nA then pure ((0, 0), (0, 0))
    else
      let bStart := max 0 s
      let bEnd := min nB (s + nA)
      if bStart ≥ bEnd then pure ((0, 0), (0, 0))
      else
        let aStart := max 0 (-s)
        let aEnd := min nA (-s + nB)
        pure ((aStart, aEnd), (bStart, bEnd))

/-! ### `_touching_windows` / `touching_windows` -/

/-- `while left_i <= n - 1 and thing_end[left_i] <= bound: left_i += 1` -/
def advanceLeft (bound : Int) : List Row → Nat → List Row × Nat
  | [], i => ([], i)
  | x :: xs, i => if x.endt ≤ bound then advanceLeft bound xs (i + 1) else (x :: xs, i)

/-- `while right_i <= n - 1 and thing_start[right_i] < bound: right_i += 1` -/
def advanceRight (bound : Int) : List Row → Nat → List Row × Nat
  | [], i => ([], i)
  | x :: xs, i => if x.time < bound then advanceRight bound xs (i + 1) else (x :: xs, i)

/-- first loop: `for i, t0 in enumerate(container_start)`; gives `result[:, 0]` -/
def leftPass (window : Int) : List Row → List Row → Nat → List Nat
  | [], _, _ => []
  | c :: cs, ts, i =>
    match advanceLeft (c.time - window) ts i with
    | (ts', i') => i' :: leftPass window cs ts' i'

/-- second loop: `for i in container_end_argsort`; gives the assignments `result[i, 1] = right_i`
as an association list (container index ↦ right_i) in the order they are made -/
def rightPass (window : Int) : List (Row × Nat) → List Row → Nat → List (Nat × Nat)
  | [], _, _ => []
  | (c, ci) :: cs, ts, i =>
    match advanceRight (c.endt + window) ts i with
    | (ts', i') => (ci, i') :: rightPass window cs ts' i'

/-- `stable_argsort(container_end)`: containers paired with their index, stably sorted by end -/
def argsortByEnd (containers : List Row) : List (Row × Nat) :=
  containers.zipIdx.mergeSort fun p q => decide (p.1.endt ≤ q.1.endt)

/-- `_touching_windows(thing_start, thing_end, container_start, container_end, window)`.
`result` starts as zeros; every row is assigned once in each loop (the `none` branch mirrors the
zero initialisation and is never taken, see `Lemmas`). -/
def touchingWindowsCore (things containers : List Row) (window : Int) : List (Nat × Nat) :=
  let lefts := leftPass window containers things 0
  let rights := rightPass window (argsortByEnd containers) things 0
  lefts.zipIdx.map fun (l, i) =>
    match rights.lookup i with
    | some r => (l, r)
    | none => (l, 0)

/-- `touching_windows(things, containers, window)` -/
def touchingWindows (things containers : List Row) (window : Int) : Except Err (List (Nat × Nat)) :=
  if !sortedByTimeB things then throw Err.valueError
  else if !sortedByTimeB containers then throw Err.valueError
  else if !nonNegB things then throw Err.valueError
  else if !nonNegB containers then throw Err.valueError
  else if things.isEmpty || containers.isEmpty then pure (containers.map fun _ => (0, 0))
  else pure (touchingWindowsCore things containers window)

/-! ### `_find_break_i` / `from_break` -/

/-- the `for i, d in enumerate(data)` loop of `_find_break_i` from `i` on -/
def findBreakLoop (safeBreak : Int) : List Row → Int → Nat → Except Err Nat
  | [], _, _ => throw Err.noBreakFound
  | d :: ds, latestEndSeen, i =>
    if d.time ≥ latestEndSeen + safeBreak then pure i
    else findBreakLoop safeBreak ds (max latestEndSeen d.endt) (i + 1)

/-- `_find_break_i(data, safe_break, not_before)` -/
def findBreakI (data : List Row) (safeBreak notBefore : Int) : Except Err Nat :=
  match data with
  | d0 :: d1 :: rest => findBreakLoop safeBreak (d1 :: rest) (max notBefore d0.endt) 1
  | _ => throw Err.assertionError                     -- `assert len(data) >= 2`

/-- `from_break(x, safe_break, not_before, left, tolerant)` -/
def fromBreak (x : List Row) (safeBreak notBefore : Int) (left tolerant : Bool) :
    Except Err (List Row × Int) :=
  if tolerant then throw Err.notImplemented
  else match x with
    | [] => throw Err.notImplemented
    | [_] => throw Err.noBreakFound
    | _ =>
      match findBreakI x safeBreak notBefore with
      | .error e => .error e
      | .ok i =>
        match x[i]? with
        | none => throw Err.other                     -- IndexError; unreachable (`findBreakI_lt`)
        | some r => pure (if left then x.take i else x.drop i, r.time)

/-! ### `abs_time_to_prev_next_interval` -/

/-- first inner loop, over the slice `intervals[veto_intervals_seen:]` taken at loop entry;
carries `times_to_prev[thing_ind]` and `veto_intervals_seen` -/
def prevLoop (t : Int) : List Row → Int → Nat → Int × Nat
  | [], prev, seen => (prev, seen)
  | iv :: ivs, prev, seen =>
    if iv.time ≥ t then (prev, seen)                  -- `break`
    else
      let dt := t - iv.endt
      if dt ≥ 0 then prevLoop t ivs dt (seen + 1)
      else prevLoop t ivs prev seen

/-- second inner loop, over `intervals[veto_intervals_seen:]` -/
def nextLoop (e : Int) : List Row → Int
  | [] => -1
  | iv :: ivs => if iv.time < e then nextLoop e ivs else iv.time - e

/-- `_abs_time_to_prev_next`: outer loop over things -/
def prevNextLoop (intervals : List Row) : List Row → Nat → List (Int × Int)
  | [], _ => []
  | th :: ths, seen =>
    match prevLoop th.time (intervals.drop seen) (-1) seen with
    | (prev, seen') =>
      (prev, nextLoop th.endt (intervals.drop seen')) ::
        prevNextLoop intervals ths (seen' - 1)        -- `max(0, seen - 1)`

/-- `abs_time_to_prev_next_interval(things, intervals)` → list of `(time_to_prev, time_to_next)` -/
def absTimeToPrevNext (things intervals : List Row) : Except Err (List (Int × Int)) :=
  if !sortedByTimeB things then throw Err.valueError
  else if !sortedByTimeB intervals then throw Err.valueError
  else if things.isEmpty || intervals.isEmpty then pure (things.map fun _ => (-1, -1))
  else pure (prevNextLoop intervals things 0)

/-! ### `sort_by_time` -/

/-- a row with a channel; `id` stands for all other bytes -/
structure CRow where
  time : Int
  channel : Int
  id : Nat
deriving Repr, DecidableEq, Inhabited

def minList (d : Int) (l : List Int) : Int := l.foldl min d
def maxList (d : Int) (l : List Int) : Int := l.foldl max d

/-- the `channel` array built by `sort_by_time` -/
def sortChannels (hasChannel : Bool) (x : List CRow) : List Int :=
  if hasChannel then
    match x.map (·.channel) with
    | [] => []
    | c :: cs =>
      let m := minList c cs
      if m < 0 then (c :: cs).map (· - m) else c :: cs
  else x.map fun _ => 1                                   -- `np.ones(len(x))`

/-- `sort_key` of `_sort_by_time_and_channel` in exact (unbounded) integer arithmetic; the int64 version is `sortKeysW` -/
def sortKeys (hasChannel : Bool) (x : List CRow) : List Int :=
  match x, sortChannels hasChannel x with
  | r :: rs, c :: cs =>
    let tmin := minList r.time (rs.map (·.time))
    let m1 := maxList c cs + 1
    ((r :: rs).zip (c :: cs)).map fun p => (p.1.time - tmin) * m1 + p.2
  | _, _ => []

/-- the fast path with exact keys (specification side; the code's version is `sortByTimeFastW`) -/
def sortByTimeFast (hasChannel : Bool) (x : List CRow) : List CRow :=
  (((sortKeys hasChannel x).zip x).mergeSort fun p q => decide (p.1 ≤ q.1)).map (·.2)

/-- the guard `(x["time"].max() - x["time"].min()) > (np.iinfo(np.int64).max - 10) / (channel.max() + 1)` as it was
meant, in exact integer arithmetic: `span * (maxChannel + 1) > 2^63 - 11` (specification side; what the code
evaluates is `sortTooLargeFloat`) -/
def sortSpanTooLarge (hasChannel : Bool) (x : List CRow) : Bool :=
  match x, sortChannels hasChannel x with
  | r :: rs, c :: cs =>
    let times := rs.map (·.time)
    decide ((maxList r.time times - minList r.time times) * (maxList c cs + 1) > 2 ^ 63 - 11)
  | _, _ => false

/-! #### int64 and float64 as the code uses them -/

/-- two's-complement wrap-around of int64 arithmetic -/
def wrap64 (k : Int) : Int := (k + 2 ^ 63) % 2 ^ 64 - 2 ^ 63

/-- conversion of a natural number to float64: nearest value with a 53-bit significand, ties to even -/
def fl53Nat (n : Nat) : Nat :=
  if n < 2 ^ 53 then n
  else
    let e := n.log2 + 1 - 53
    let q := n / 2 ^ e
    let r := n % 2 ^ e
    let half := 2 ^ (e - 1)
    (if r > half ∨ (r = half ∧ q % 2 = 1) then q + 1 else q) * 2 ^ e

/-- conversion of an int64 to float64 (as an exact integer) -/
def fl53 (n : Int) : Int := if n < 0 then -((fl53Nat n.natAbs : Nat) : Int) else ((fl53Nat n.toNat : Nat) : Int)

/-- smallest `k` with `m ≤ 2^k` -/
def clog2 (m : Nat) : Nat := if m ≤ 1 then 0 else (m - 1).log2 + 1

/-- `span > (2**63 - 11) / m` as numpy evaluates it: `2**63 - 11` becomes the float `2^63`, the quotient is rounded to
53 bits (ties to even), `span` is converted to float64, then the two floats are compared.  With `e` the exponent of the
quotient, the quotient is `a * 2^(e-52)` for the rounded integer `a`. -/
def floatGuard (span m : Int) : Bool :=
  let e := 63 - clog2 m.toNat
  let n : Int := 2 ^ (115 - e)
  let a := n / m
  let r := n % m
  let a' := if 2 * r > m ∨ (2 * r = m ∧ a % 2 = 1) then a + 1 else a
  decide (fl53 span * 2 ^ 52 > a' * 2 ^ e)

/-- `_time_range_too_large` as the code computes it (int64 subtraction, float64 division and comparison) -/
def sortTooLargeFloat (hasChannel : Bool) (x : List CRow) : Bool :=
  match x, sortChannels hasChannel x with
  | r :: rs, c :: cs =>
    let times := rs.map (·.time)
    floatGuard (wrap64 (maxList r.time times - minList r.time times)) (maxList c cs + 1)
  | _, _ => false

/-- `sort_key` as numba computes it: every operation in int64 -/
def sortKeysW (hasChannel : Bool) (x : List CRow) : List Int :=
  match x, sortChannels hasChannel x with
  | r :: rs, c :: cs =>
    let tmin := minList r.time (rs.map (·.time))
    let m1 := maxList c cs + 1
    ((r :: rs).zip (c :: cs)).map fun p => wrap64 (wrap64 (wrap64 (p.1.time - tmin) * m1) + p.2)
  | _, _ => []

/-- the fast path of `sort_by_time(x)` (`_sort_by_time_and_channel`, stable argsort of one composite int64 key) -/
def sortByTimeFastW (hasChannel : Bool) (x : List CRow) : List CRow :=
  (((sortKeysW hasChannel x).zip x).mergeSort fun p q => decide (p.1 ≤ q.1)).map (·.2)

/-- the inputs on which the code's float guard decides like the exact one and no int64 operation wraps: everything
except (i) a band of relative width ≈ 2⁻⁵² around `span * (maxChannel + 1) = 2^63`, where the float guard still
chooses the fast path although the key no longer fits (the key wraps and the result is not sorted), and (ii) spans
≥ 2^63.  Hypothesis of the `sort_*` theorems; evaluated by the driver op `c17.sortreg`. -/
def sortRegular (hasChannel : Bool) (x : List CRow) : Bool :=
  (sortTooLargeFloat hasChannel x == sortSpanTooLarge hasChannel x) &&
  (sortSpanTooLarge hasChannel x || sortKeysW hasChannel x == sortKeys hasChannel x)

/-- `np.sort(x, kind="mergesort", order=("time", "channel"))` resp. `order=("time",)`: numpy compares the listed
fields first and then breaks ties with the *remaining fields in dtype order* — here the single field `id` that stands
for all other bytes of the row.  It does not keep the input order of rows that tie on (time, channel). -/
def lexAllLeB (hasChannel : Bool) (a b : CRow) : Bool :=
  decide (a.time < b.time ∨ (a.time = b.time ∧
    (if hasChannel then a.channel < b.channel ∨ (a.channel = b.channel ∧ a.id ≤ b.id) else a.id ≤ b.id)))

/-- insertion into a sorted list, before the first element that is not smaller -/
def insertBy (le : α → α → Bool) (a : α) : List α → List α
  | [] => [a]
  | b :: l => if le a b then a :: b :: l else b :: insertBy le a l

/-- insertion sort (any correct sort gives the same list here: the order is total and antisymmetric on rows) -/
def isort (le : α → α → Bool) (l : List α) : List α := l.foldr (insertBy le) []

/-- the slow path of `sort_by_time` -/
def sortByTimeSlow (hasChannel : Bool) (x : List CRow) : List CRow := isort (lexAllLeB hasChannel) x

/-- `sort_by_time(x)` in exact arithmetic (specification side) -/
def sortByTimeExact (hasChannel : Bool) (x : List CRow) : List CRow :=
  if sortSpanTooLarge hasChannel x then sortByTimeSlow hasChannel x else sortByTimeFast hasChannel x

/-- `sort_by_time(x)` as the code computes it (without a channel field the channel array is `np.ones(len(x),
dtype=np.int64)` since the D33 fix, so the key is an int64 on both branches) -/
def sortByTime (hasChannel : Bool) (x : List CRow) : List CRow :=
  if sortTooLargeFloat hasChannel x then sortByTimeSlow hasChannel x else sortByTimeFastW hasChannel x

/-! ### `strax/sort_enforcement.py` -/

/-- `stable_argsort(arr, kind)`: only `"mergesort"` is accepted (`SortingError` otherwise); indices of a stable sort -/
def stableArgsort (kind : String) (arr : List Int) : Option (List Nat) :=
  if kind != "mergesort" then none
  else some ((arr.zipIdx.mergeSort fun p q => decide (p.1 ≤ q.1)).map (·.2))

/-- `_sort_by_time_and_channel(x, channel, max_channel_plus_one, sort_kind)` -/
def sortByTimeAndChannelKind (kind : String) (hasChannel : Bool) (x : List CRow) : Option (List CRow) :=
  if kind != "mergesort" then none else some (sortByTimeFastW hasChannel x)

/-- `_touching_windows(..., endtime_sort_kind)` -/
def touchingWindowsCoreKind (kind : String) (things containers : List Row) (window : Int) : Option (List (Nat × Nat)) :=
  if kind != "mergesort" then none else some (touchingWindowsCore things containers window)

/-- `stable_sort(arr, kind)` on a plain integer array -/
def stableSort (kind : String) (arr : List Int) : Option (List Int) :=
  if kind != "mergesort" then none
  else some (arr.mergeSort fun a b => decide (a ≤ b))

/-! ### `split_touching_windows` -/

/-- `_split_by_window(r, windows)`: `r[w[0] : w[1]]` for every window (empty when `w[0] ≥ w[1]`) -/
def splitByWindow (r : List Row) (windows : List (Nat × Nat)) : List (List Row) :=
  windows.map fun w => (r.take w.2).drop w.1

/-- `split_touching_windows(things, containers, window)` -/
def splitTouchingWindows (things containers : List Row) (window : Int) : Except Err (List (List Row)) :=
  match touchingWindows things containers window with
  | .error e => .error e
  | .ok ws => .ok (splitByWindow things ws)

end Strax.IntervalAlgos
