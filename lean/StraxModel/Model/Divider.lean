import StraxModel.Model.Mailbox
/-
  T6 — `divide_outputs` (strax/mailbox.py): one thread that takes dicts from a source and is the sender of
  several output mailboxes, each with its own subscribers.  Same granularity and the same mailbox operations
  (`MB.gateStep`, `MB.sendStep`, `MB.readStep`, `MB.kill`) as Model/Mailbox.lean.

  The divider thread, as the code stands (incl. the fixes 86c4ce9, 4ac3e47, 1c8a0e0):
    loop:  lazy only: for every output that is not in `flow_freely`, in order: the fetch gate of that mailbox
           (`with m._lock: if not m._can_fetch(): wait`)                                  — pc `gate k`
           `next(source)`: exhausted -> close phase; raises e -> failure phase            — pc `fetch`
           `for d in outputs: mailboxes[d].send(result[d])` (each may wait; a killed, not force-killed
           mailbox drops its component and the loop goes on); an exception e -> `source.throw(e)`
           (StopIteration tolerated) -> failure phase                                     — pc `send k msgs`
    close phase:   `for m: m.close()`; an exception e -> failure phase                   — pc `close k`
    failure phase: `for m: m.kill_from_exception(e, reraise=False)` (= `kill(upstream=True)` on every output,
                   one lock acquisition each), then re-raise unless e is MailboxKilled    — pc `exc k e`
-/
namespace Strax.Mailbox
open Strax

/-- what the source yields: a dict, given as the list of its components in `outputs` order, or an exception -/
inductive DItem where
  | item (msgs : List Msg)
  | raise
deriving Repr, DecidableEq

inductive DPc where
  | gate (k : Nat)
  | fetch
  | send (k : Nat) (msgs : List Msg)
  | close (k : Nat)
  | exc (k : Nat) (e : Err)
  | done
  | dead (e : Err)
deriving Repr, DecidableEq

/-- one output: its mailbox, its subscriber threads, and the ghost log of what was pushed into it -/
structure Out where
  mb : MB
  readers : List Reader
  sent : List (Nat × Msg)
  free : Bool                       -- listed in `flow_freely`
deriving Repr, DecidableEq

inductive DThread where
  | divider
  | reader (k i : Nat)
  | worker (j : Nat)
  | killer (q : Nat)
deriving Repr, DecidableEq

structure DSys where
  outs : List Out
  lazy : Bool                       -- the `lazy` argument (the mailboxes are created with the same flag)
  prog : List DItem
  i : Nat                           -- the loop counter `i` of divide_outputs: dicts completely sent
  dpc : DPc
  futDone : List Nat
  workers : List (List Nat)
  killers : List (Option (Nat × Bool))   -- `some (k, upstream)`: still to call `kill(upstream)` on output k
deriving Repr, DecidableEq

/-- the first output at or after `k` whose gate has to be passed -/
def nextGated : List Out → Nat → Option Nat
  | [], _ => none
  | o :: r, k => if o.free then (nextGated r (k + 1)) else some k

/-- pc after the gates `0 … k-1`: the next gated output, or `fetch` -/
def DSys.gateFrom (s : DSys) (k : Nat) : DPc :=
  match nextGated (s.outs.drop k) k with
  | some j => .gate j
  | none => .fetch

/-- top of the `while True` loop -/
def DSys.loopStart (s : DSys) : DPc := if s.lazy then s.gateFrom 0 else .fetch

/-- how the thread ends after the failure phase -/
def endOf (e : Err) : DPc := if e = .mailboxKilled then .done else .dead e

/-- entering the failure phase -/
def DSys.fail (s : DSys) (e : Err) : DPc := if s.outs.isEmpty then endOf e else .exc 0 e

/-- `mailboxes[d].send(result[d])` for output `k`: evaluating `result[d]` raises KeyError (no yield point before
it) when the dict lacks that output; otherwise the thread stops in front of the lock of mailbox `k` -/
def DSys.sendAt (s : DSys) (k : Nat) (msgs : List Msg) : DPc :=
  if (msgs[k]?).isSome then .send k msgs else s.fail .keyError

/-- after component `k` went out (or was dropped): the next component, or back to the top of the loop -/
def DSys.afterSendAt (s : DSys) (k : Nat) (msgs : List Msg) : DPc :=
  if k + 1 < s.outs.length then s.sendAt (k + 1) msgs else s.loopStart

/-- `i += 1` once the whole dict is out -/
def DSys.iAfter (s : DSys) (k : Nat) : Nat := if k + 1 < s.outs.length then s.i else s.i + 1

def DSys.afterClose (s : DSys) (k : Nat) : DPc := if k + 1 < s.outs.length then .close (k + 1) else .done

def DSys.afterExc (s : DSys) (k : Nat) (e : Err) : DPc := if k + 1 < s.outs.length then .exc (k + 1) e else endOf e

def stepDivider (s : DSys) : Option DSys :=
  match s.dpc with
  | .gate k =>
    match s.outs[k]? with
    | none => none
    | some o =>
      match o.mb.gateStep with
      | none => none
      | some (ok, mb) =>
        let s1 : DSys := { s with outs := s.outs.set k { o with mb := mb } }
        some { s1 with dpc := if ok then s1.gateFrom (k + 1) else .gate k }
  | .fetch =>
    match s.prog with
    | [] => some { s with dpc := if s.outs.isEmpty then .done else .close 0 }
    | .item msgs :: rest =>
      some { s with prog := rest, dpc := if s.outs.isEmpty then s.loopStart else s.sendAt 0 msgs }
    | .raise :: rest => some { s with prog := rest, dpc := s.fail .valueError }
  | .send k msgs =>
    match s.outs[k]?, msgs[k]? with
    | some o, some m =>
      match o.mb.sendStep none m with
      | none => none
      | some (.sent n, mb) =>
        some { s with outs := s.outs.set k { o with mb := mb, sent := o.sent ++ [(n, m)] }, dpc := s.afterSendAt k msgs, i := s.iAfter k }
      | some (.dropped, mb) => some { s with outs := s.outs.set k { o with mb := mb }, dpc := s.afterSendAt k msgs, i := s.iAfter k }
      | some (.waiting _, mb) => some { s with outs := s.outs.set k { o with mb := mb } }
      | some (.raised e, mb) => some { s with outs := s.outs.set k { o with mb := mb }, dpc := s.fail e }
    | _, _ => none
  | .close k =>
    match s.outs[k]? with
    | none => none
    | some o =>
      match o.mb.sendStep none .stop with
      | none => none
      | some (.sent n, mb) =>
        some { s with outs := s.outs.set k { o with mb := { mb with closed := true }, sent := o.sent ++ [(n, .stop)] }, dpc := s.afterClose k }
      | some (.dropped, mb) => some { s with outs := s.outs.set k { o with mb := { mb with closed := true } }, dpc := s.afterClose k }
      | some (.waiting _, mb) => some { s with outs := s.outs.set k { o with mb := mb } }
      | some (.raised e, mb) => some { s with outs := s.outs.set k { o with mb := mb }, dpc := s.fail e }
  | .exc k e =>
    match s.outs[k]? with
    | none => none
    | some o =>
      some { s with outs := s.outs.set k { o with mb := o.mb.kill true }, dpc := s.afterExc k e }
  | .done => none
  | .dead _ => none

def stepDReader (s : DSys) (k i : Nat) : Option DSys :=
  match s.outs[k]? with
  | none => none
  | some o =>
    match o.readers[i]? with
    | none => none
    | some r =>
      match r.pc with
      | .read =>
        match o.mb.readStep i with
        | none => none
        | some (.waiting, mb) => some { s with outs := s.outs.set k { o with mb := mb } }
        | some (.killed, mb) =>
          some { s with outs := s.outs.set k { o with mb := mb, readers := o.readers.set i { r with pc := .dead .mailboxKilled } } }
        | some (.took msgs, mb) =>
          some { s with outs := s.outs.set k { o with mb := mb, readers := o.readers.set i (deliver s.futDone msgs r.got) } }
      | .futW pend =>
        match pend with
        | .fut id _ :: _ =>
          if s.futDone.contains id then
            some { s with outs := s.outs.set k { o with readers := o.readers.set i (deliver s.futDone pend r.got) } }
          else none
        | _ => none
      | .done _ => none
      | .dead _ => none

def stepDWorker (s : DSys) (j : Nat) : Option DSys :=
  match s.workers[j]? with
  | some (id :: rest) => some { s with futDone := id :: s.futDone, workers := s.workers.set j rest }
  | _ => none

def stepDKiller (s : DSys) (q : Nat) : Option DSys :=
  match s.killers[q]? with
  | some (some (k, up)) =>
    match s.outs[k]? with
    | some o => some { s with outs := s.outs.set k { o with mb := o.mb.kill up }, killers := s.killers.set q none }
    | none => none
  | _ => none

def dstep (s : DSys) : DThread → Option DSys
  | .divider => stepDivider s
  | .reader k i => stepDReader s k i
  | .worker j => stepDWorker s j
  | .killer q => stepDKiller s q

structure DConfig where
  cap : Option Nat
  lazy : Bool
  gateRule : GateRule
  outs : List (List Bool × Bool)    -- per output: driver mask of its subscribers, member of `flow_freely`
  prog : List DItem
  workers : List (List Nat)
  killers : List (Nat × Bool)
deriving Repr, DecidableEq

def dinit (c : DConfig) : DSys :=
  let s0 : DSys :=
    { outs := c.outs.map fun o =>
        { mb := { cap := c.cap, lazy := c.lazy, gateRule := c.gateRule, heap := [],
                  subs := o.1.map fun d => { next := 0, waitingFor := none, canDrive := d, flag := none },
                  nSent := 0, closed := false, killed := false, forceKilled := false,
                  writeFlag := none, fetchFlag := none },
          readers := o.1.map fun _ => { pc := .read, got := [] },
          sent := [], free := o.2 },
      lazy := c.lazy, prog := c.prog, i := 0, dpc := .fetch, futDone := [], workers := c.workers,
      killers := c.killers.map some }
  { s0 with dpc := s0.loopStart }

inductive DReachable (c : DConfig) : DSys → Prop
  | init : DReachable c (dinit c)
  | step {s s' : DSys} {t : DThread} : DReachable c s → dstep s t = some s' → DReachable c s'

def drun? (s : DSys) : List DThread → Option DSys
  | [] => some s
  | t :: ts =>
    match dstep s t with
    | some s' => drun? s' ts
    | none => none

def DSys.threads (s : DSys) : List DThread :=
  [.divider] ++
  ((List.range s.outs.length).zip s.outs).flatMap (fun p => (List.range p.2.readers.length).map (DThread.reader p.1)) ++
  (List.range s.workers.length).map .worker ++ (List.range s.killers.length).map .killer

def DSys.enabled (s : DSys) : List DThread := s.threads.filter (fun t => (dstep s t).isSome)

def DPc.finished : DPc → Bool
  | .done => true
  | .dead _ => true
  | _ => false

def DSys.final (s : DSys) : Bool :=
  s.dpc.finished && s.outs.all (fun o => o.readers.all (fun r => r.pc.finished)) &&
  s.workers.all List.isEmpty && s.killers.all Option.isNone

end Strax.Mailbox
