import StraxModel.Model.Basic
/-
  T15 Peaks — executable model of the peak-building chain of strax (property C19), written after

    strax/processing/peak_building.py   find_peaks, store_downsampled_waveform, sum_waveform
    strax/processing/peak_merging.py    merge_peaks/_merge_peaks, replace_merged/_replace_merged, add_lone_hits
    strax/processing/peak_splitting.py  PeakSplitter._split_peaks, symmetric_moving_average
    strax/processing/peak_properties.py index_of_fraction/compute_index_of_fraction, compute_widths
    strax/processing/statistics.py      highest_density_region
    strax/processing/general.py         overlap_indices, _touching_windows, _fc_in (as used by the above)

  The model mirrors the code AS IT IS (odd corners included, see the comments at each function).
  Floats are exact rationals (`Rat`, core Lean): the harness only compares on inputs on which
  float32/float64 arithmetic is exact.  int32/int64 wrap-around is not modelled.
  Import-free apart from `Model/Basic` so that the driver links without Mathlib.
-/
namespace Strax.Peaks
open Strax

/-! ## small list helpers (numpy slices) -/

/-- `n` zeros (`np.zeros(n)`) -/
def zeros (n : Nat) : List Rat := List.replicate n 0

/-- numpy `a[lo:hi]` for `0 ≤ lo`, `0 ≤ hi` -/
def slice (a : List α) (lo hi : Nat) : List α := (a.drop lo).take (hi - lo)

/-- numpy `buf[start : start+len(xs)] += xs` (the part of `xs` that would fall behind the end of
`buf` is dropped; the real code never gets there, see `Lemmas/Peaks.lean: overlapIndices_fits`). -/
def addAt : List Rat → Nat → List Rat → List Rat
  | [], _, _ => []
  | b :: bs, 0, [] => b :: bs
  | b :: bs, 0, x :: xs => (b + x) :: addAt bs 0 xs
  | b :: bs, k+1, xs => b :: addAt bs k xs

/-- numpy `buf[start : start+len(xs)] = xs` (assignment; overflow dropped as in `addAt`). -/
def setAt : List Rat → Nat → List Rat → List Rat
  | [], _, _ => []
  | b :: bs, 0, [] => b :: bs
  | _ :: bs, 0, x :: xs => x :: setAt bs 0 xs
  | b :: bs, k+1, xs => b :: setAt bs k xs

/-- `arr[i] += x` on a fixed-size array (`i` out of range: unchanged; the harness keeps channels in range) -/
def addIdx : List Rat → Nat → Rat → List Rat
  | [], _, _ => []
  | b :: bs, 0, x => (b + x) :: bs
  | b :: bs, k+1, x => b :: addIdx bs k x

/-- element-wise `a += b` of equally long arrays -/
def zipAdd : List Rat → List Rat → List Rat
  | a :: as, b :: bs => (a + b) :: zipAdd as bs
  | as, [] => as
  | [], _ => []

/-! ## rows -/

/-- A hit (or any interval handed to `find_peaks`): `[time, time + dt*length)` in one channel.
`area` is in ADC×samples; `wave` are the `length` samples of the hit in ADC counts (what
`_build_hit_waveform` reads from the record; only `sum_waveform` uses it). -/
structure Hit where
  time : Int
  length : Int
  dt : Int
  channel : Nat
  area : Rat
  wave : List Rat := []
deriving Repr, DecidableEq, Inhabited

def Hit.endt (h : Hit) : Int := h.time + h.dt * h.length

/-- The fields of a peak the property talks about. `data` is the whole fixed-size buffer
(`n_sum_wv_samples` entries); only its first `length` entries are meaningful. -/
structure Peak where
  time : Int
  length : Int
  dt : Int
  area : Rat
  apc : List Rat        -- area_per_channel
  nHits : Int
  maxGap : Int
  data : List Rat
deriving Repr, DecidableEq, Inhabited

def Peak.endt (p : Peak) : Int := p.time + p.dt * p.length

/-- waveform of a peak: `p['data'][:p['length']]` -/
def Peak.wave (p : Peak) : List Rat := p.data.take p.length.toNat

/-! ## find_peaks -/

structure FPParams where
  gap : Int
  left : Int
  right : Int
  minArea : Rat
  minChannels : Int
  maxDuration : Int
deriving Repr, DecidableEq, Inhabited

/-- The peak candidate under construction (`buffer[offset]` + `peak_endtime` + `area_per_channel`).
`members` is a ghost field (the hits added so far, in order); nothing reads it. `lastDt` is the
`dt` of the hit handled last (the loop variable `dt` used for the final length). -/
structure Cand where
  time : Int
  dt : Int
  nHits : Int
  area : Rat
  maxGap : Int
  apc : List Rat
  endt : Int
  lastDt : Int
  members : List Hit
deriving Repr, DecidableEq, Inhabited

/-- first half of the loop body: `if in_peak: … else: …` -/
def Cand.enter (P : FPParams) (nCh : Nat) (c : Option Cand) (h : Hit) : Cand :=
  match c with
  | some c => { c with maxGap := max c.maxGap (h.time - c.endt) }
  | none => { time := h.time - P.left, dt := h.dt, nHits := 0, area := 0, maxGap := 0,
              apc := zeros nCh, endt := h.endt, lastDt := h.dt, members := [] }

/-- "Add hit's properties to the current peak candidate" -/
def Cand.add (toPe : List Rat) (c : Cand) (h : Hit) : Cand :=
  let a := h.area * toPe.getD h.channel 0
  { c with nHits := c.nHits + 1, endt := max c.endt h.endt, area := c.area + a,
           apc := addIdx c.apc h.channel a, lastDt := h.dt, members := c.members ++ [h] }

/-- `next_hit_is_far` -/
def isFar (P : FPParams) (c : Cand) (nx : Hit) : Bool := decide (nx.time - c.endt ≥ P.gap)

/-- `peak_too_long` (note: `p["time"]` already contains `- left_extension`, so the left extension
counts twice — mirrored as written) -/
def tooLong (P : FPParams) (c : Cand) (nx : Hit) : Bool :=
  decide (nx.time - c.time + nx.dt * nx.length + P.left + P.right > P.maxDuration)

/-- The hit loop of `find_peaks`: returns every candidate at the moment it is closed
(`is_last_hit or next_hit_is_far or peak_too_long`), before the cuts. -/
def scanHits (P : FPParams) (toPe : List Rat) (nCh : Nat) : Option Cand → List Hit → List Cand
  | _, [] => []
  | c, h :: rest =>
    let c := (Cand.enter P nCh c h).add toPe h
    match rest with
    | [] => [c]
    | nx :: _ =>
      if isFar P c nx || tooLong P c nx then c :: scanHits P toPe nCh none rest
      else scanHits P toPe nCh (some c) rest

/-- number of channels with non-zero area: `(area_per_channel != 0).sum()` -/
def nonzeroCount (l : List Rat) : Int := (l.filter (· ≠ 0)).length

/-- What happens to a closed candidate: the two cuts (`continue`), then the final quantities.
`p["length"] = (peak_endtime - p["time"] + right_extension) / dt` is a float division stored into
an int32 field, i.e. truncation toward zero. `none` = not saved. -/
def Cand.finish (P : FPParams) (nSamples : Nat) (c : Cand) : Except Err (Option Peak) :=
  if c.area < P.minArea then .ok none
  else if nonzeroCount c.apc < P.minChannels then .ok none
  else if c.lastDt = 0 then .error .other       -- ZeroDivisionError
  else
    let len := Int.tdiv (c.endt - c.time + P.right) c.lastDt
    if len ≤ 0 then .error .valueError
    else .ok (some { time := c.time, length := len, dt := c.dt, area := c.area, apc := c.apc,
                     nHits := c.nHits, maxGap := c.maxGap, data := zeros nSamples })

/-- cuts and final quantities for all closed candidates in order; the first error wins (the
exception propagates out of `find_peaks`, earlier peaks are lost with it). -/
def finishAll (P : FPParams) (nSamples : Nat) : List Cand → Except Err (List Peak)
  | [] => .ok []
  | c :: cs =>
    match c.finish P nSamples with
    | .error e => .error e
    | .ok none => finishAll P nSamples cs
    | .ok (some p) =>
      match finishAll P nSamples cs with
      | .error e => .error e
      | .ok ps => .ok (p :: ps)

/-- the assertions at the top of `find_peaks` (all `AssertionError`) -/
def fpAsserts (P : FPParams) (toPe : List Rat) (hits : List Hit) : Bool :=
  match hits with
  | [] => true
  | h0 :: _ =>
    decide (h0.dt > 0) && decide (P.minChannels ≥ 1) && decide (P.gap > P.left + P.right)
      && hits.all (fun h => decide (h.channel < toPe.length))
      && decide (P.left + P.maxDuration + P.right < 429496729400)

/-- `strax.find_peaks(hits, adc_to_pe, gap_threshold, left_extension, right_extension, min_area,
min_channels, max_duration)` with a result dtype of `nCh` channels and `nSamples` waveform samples.
The cuts do not influence the loop state (`in_peak = False` either way), so the loop (`scanHits`)
and the per-candidate epilogue (`finishAll`) are modelled one after the other. -/
def findPeaks (P : FPParams) (toPe : List Rat) (nCh nSamples : Nat) (hits : List Hit) : Except Err (List Peak) :=
  if hits.isEmpty then .ok []
  else if !fpAsserts P toPe hits then .error .assertionError
  else finishAll P nSamples (scanHits P toPe nCh none hits)

/-! ## store_downsampled_waveform -/

/-- sums of consecutive groups of `f` samples: `buf[:k*f].reshape(-1, f).sum(axis=1)` -/
def groupSums (f : Nat) : Nat → List Rat → List Rat
  | 0, _ => []
  | k+1, buf => (buf.take f).sum :: groupSums f k (buf.drop f)

/-- `int(np.ceil(length / n_samples))` for `length ≥ 0`, `n_samples > 0` -/
def downsampleFactor (length nSamples : Nat) : Nat := (length + nSamples - 1) / nSamples

/-- `p["data"][:len(xs)] = xs` -/
def writePrefix (data xs : List Rat) : List Rat := setAt data 0 xs

/-- `store_downsampled_waveform(p, waveform_buffer)` (sum waveform only; `data_top`/`data_start`
follow the same code path and are not modelled). Negative lengths are outside the model
(`toNat`); the harness never passes them. As in the code the peak is SHORTENED when the factor does
not divide the length (`floor`), i.e. the tail `buf[newLen*f : length]` is dropped (defect D11). -/
def storeDownsampled (p : Peak) (buf : List Rat) : Peak :=
  let n := p.data.length
  let L := p.length.toNat
  let f := downsampleFactor L n
  if f > 1 then
    let newLen := L / f
    { p with length := newLen, data := writePrefix p.data (groupSums f newLen buf), dt := p.dt * f }
  else
    { p with data := writePrefix p.data (buf.take L) }

/-- the samples that `store_downsampled_waveform` leaves out -/
def droppedTail (p : Peak) (buf : List Rat) : List Rat :=
  let L := p.length.toNat
  let f := downsampleFactor L p.data.length
  if f > 1 then (buf.take L).drop (L / f * f) else []

/-! ## sum_waveform -/

/-- `strax.overlap_indices(a1, n_a, b1, n_b)` -/
def overlapIndices (a1 nA b1 nB : Int) : Except Err ((Int × Int) × (Int × Int)) :=
  if nA < 0 || nB < 0 then .error .valueError
  else if nA == 0 || nB == 0 then .ok ((0, 0), (0, 0))
  else
    let s := a1 - b1
    if s ≤ -nA then .ok ((0, 0), (0, 0))
    else
      let bStart := max 0 s
      let bEnd := min nB (s + nA)
      if bStart ≥ bEnd then .ok ((0, 0), (0, 0))
      else .ok ((max 0 (-s), min nA (-s + nB)), (bStart, bEnd))

/-- accumulator of the hit scan for one peak -/
structure SumAcc where
  buf : List Rat
  area : Rat
  apc : List Rat
deriving Repr, DecidableEq, Inhabited

/-- "Scan over hits that overlap with peak": `for right_h_i in range(left_h_i, len(hits))`. -/
def scanPeakHits (p : Peak) (dt : Int) (toPe : List Rat) : List Hit → SumAcc → Except Err SumAcc
  | [], acc => .ok acc
  | h :: rest, acc =>
    if p.dt ≠ h.dt then .error .assertionError
    else
      let shift := Int.fdiv (p.time - h.time) dt
      if shift ≤ -p.length then .ok acc                       -- break
      else if h.length ≤ shift then scanPeakHits p dt toPe rest acc   -- continue
      else
        match overlapIndices (Int.fdiv h.time dt) h.length (Int.fdiv p.time dt) p.length with
        | .error e => .error e
        | .ok ((hs, he), (ps, _pe)) =>
          let hitData := (slice h.wave hs.toNat he.toNat).map (· * toPe.getD h.channel 0)
          let a := hitData.sum
          scanPeakHits p dt toPe rest
            { buf := addAt acc.buf ps.toNat hitData, area := acc.area + a, apc := addIdx acc.apc h.channel a }

/-- "Find first hit that contributes to this peak": advances `left_h_i`; `none` = the `for … else`
branch (hits exhausted). Returns the remaining hits starting at the found one. -/
def firstContributing (p : Peak) (dt : Int) : List Hit → Option (List Hit)
  | [] => none
  | h :: rest => if p.time < h.time + h.length * dt then some (h :: rest) else firstContributing p dt rest

/-- body of the peak loop once the first contributing hit is known: scan the hits, store the
(down-sampled) waveform, set area and area per channel. Also returns the full-resolution buffer
(ghost: only the theorems look at it). -/
def sumOnePeak (dt : Int) (toPe : List Rat) (nCh : Nat) (p : Peak) (hits' : List Hit) : Except Err (Peak × List Rat) :=
  match scanPeakHits p dt toPe hits' { buf := zeros p.length.toNat, area := 0, apc := zeros nCh } with
  | .error e => .error e
  | .ok acc => .ok ({ storeDownsampled { p with area := acc.area } acc.buf with apc := acc.apc }, acc.buf)

/-- the loop over peaks; `hits` is `hits[left_h_i:]` -/
def sumLoop (dt : Int) (toPe : List Rat) (nCh : Nat) : List Peak → List Hit → Except Err (List Peak)
  | [], _ => .ok []
  | p :: ps, hits =>
    match firstContributing p dt hits with
    | none =>
      -- `break` out of the peak loop: this peak has only lost its area, the rest is untouched
      .ok ({ p with area := 0 } :: ps)
    | some hits' =>
      match sumOnePeak dt toPe nCh p hits' with
      | .error e => .error e
      | .ok (p', _) =>
        match sumLoop dt toPe nCh ps hits' with
        | .error e => .error e
        | .ok r => .ok (p' :: r)

/-- `strax.sum_waveform(peaks, hits, records, record_links, adc_to_pe)` where every hit lies in one
record with integer baseline and no bit shift, so that `_build_hit_waveform` yields `h.wave`;
`dt = records[0]["dt"]`. The caller guarantees at least one hit and one record. -/
def sumWaveform (dt : Int) (toPe : List Rat) (nCh : Nat) (peaks : List Peak) (hits : List Hit) : Except Err (List Peak) :=
  if peaks.isEmpty then .ok [] else sumLoop dt toPe nCh peaks hits

/-- what hit `h` contributes to peak `p` by definition: its samples that lie inside the peak, in PE -/
def contribution (p : Peak) (dt : Int) (toPe : List Rat) (h : Hit) : Rat :=
  (((List.range h.wave.length).filter fun (k : Nat) =>
      decide (p.time ≤ h.time + (k : Int) * dt) && decide (h.time + (k : Int) * dt < p.time + p.length * dt)).map
    fun (k : Nat) => h.wave.getD k 0 * toPe.getD h.channel 0).sum

/-! ## merge_peaks -/

/-- `gcd_of_array(old_peaks["dt"])` -/
def gcdOfDts : List Peak → Int
  | [] => 0
  | p :: ps => ps.foldl (fun g q => (Int.gcd g q.dt : Int)) p.dt

/-- `np.repeat(xs, k) / k` -/
def upsampleWave (xs : List Rat) (k : Nat) : List Rat :=
  xs.flatMap fun x => List.replicate k (x / (k : Rat))

structure MergeAcc where
  buf : List Rat
  area : Rat
  apc : List Rat
  nHits : Int
deriving Repr, DecidableEq, Inhabited

/-- the loop `for p in old_peaks` of `_merge_peaks` -/
def mergeLoop (t0 common : Int) : List Peak → MergeAcc → Except Err MergeAcc
  | [], acc => .ok acc
  | p :: ps, acc =>
    let up := p.dt / common
    let i0 := Int.fdiv (p.time - t0) common
    if i0 < 0 ∨ up < 0 ∨ p.length < 0 then .error .other        -- negative slice indices: outside the model
    else if p.length.toNat > p.data.length then .error .valueError   -- slice/size mismatch in the assignment
    else
      mergeLoop t0 common ps
        { buf := setAt acc.buf i0.toNat (upsampleWave p.wave up.toNat), area := acc.area + p.area,
          apc := zipAdd acc.apc p.apc, nHits := acc.nHits + p.nHits }

/-- one new peak of `_merge_peaks` from its constituents `old_peaks`; returns the peak and the
collected `endtime` (end of the last constituent). `max_buffer` is assumed large enough. -/
def mergeOne (nCh nSamples : Nat) (old : List Peak) : Except Err (Peak × Int) :=
  match old, old.getLast? with
  | first :: _, some last =>
    let common := gcdOfDts old
    if common = 0 then .error .other       -- ZeroDivisionError
    else
      let len0 := Int.fdiv (last.endt - first.time) common
      match mergeLoop first.time common old
          { buf := zeros len0.toNat, area := 0, apc := zeros nCh, nHits := 0 } with
      | .error e => .error e
      | .ok acc =>
        let p : Peak := { time := first.time, length := len0, dt := common, area := acc.area, apc := acc.apc,
                          nHits := acc.nHits, maxGap := -1, data := zeros nSamples }
        .ok (storeDownsampled p acc.buf, last.endt)
  | _, _ => .error .other                  -- empty selection: out-of-bounds read in the real code

/-- `peaks["time"][1:] - endtime(peaks)[:-1]` -/
def gapsBetween : List Peak → List Int
  | a :: b :: rest => (b.time - a.endt) :: gapsBetween (b :: rest)
  | _ => []

/-- `old_peaks = peaks[start:end]` (and `[merged[start:end]]` when a mask is given) -/
def selectOld (peaks : List Peak) (merged : Option (List Bool)) (s e : Nat) : Except Err (List Peak) :=
  let sl := slice peaks s e
  match merged with
  | none => .ok sl
  | some m =>
    let msl := slice m s e
    if !msl.any id then .error .valueError      -- "Trying to merge zero peaks!"
    else .ok ((sl.zip msl).filter (·.2) |>.map (·.1))

def mergeAll (nCh nSamples : Nat) (peaks : List Peak) (merged : Option (List Bool)) :
    List (Nat × Nat) → Except Err (List (Peak × Int))
  | [] => .ok []
  | (s, e) :: rest =>
    match selectOld peaks merged s e with
    | .error er => .error er
    | .ok old =>
      match mergeOne nCh nSamples old with
      | .error er => .error er
      | .ok r =>
        match mergeAll nCh nSamples peaks merged rest with
        | .error er => .error er
        | .ok rs => .ok (r :: rs)

/-- `strax.merge_peaks(peaks, start_merge_at, end_merge_at, merged)`; `ranges` = zipped
start/end index arrays. `np.min` over the gaps raises `ValueError` for a one-row `peaks`
(zero-size reduction) exactly like for overlapping peaks. -/
def mergePeaks (nCh nSamples : Nat) (peaks : List Peak) (merged : Option (List Bool))
    (ranges : List (Nat × Nat)) : Except Err (List (Peak × Int)) :=
  match merged with
  | some m =>
    if !ranges.isEmpty && (m.length ≠ peaks.length || ranges.any fun r => m.length < r.2) then .error .assertionError
    else mergePeaksGo
  | none => mergePeaksGo
where
  mergePeaksGo : Except Err (List (Peak × Int)) :=
    let gaps := gapsBetween peaks
    if gaps.isEmpty then .error .valueError
    else if gaps.any (· < 0) then .error .valueError
    else mergeAll nCh nSamples peaks merged ranges

/-! ## replace_merged -/

/-- insertion of an index into a list of indices sorted by key (stable: after equal keys) -/
def insertByKey (key : Nat → Int) (i : Nat) : List Nat → List Nat
  | [] => [i]
  | j :: js => if key i < key j then i :: j :: js else j :: insertByKey key i js

/-- `stable_argsort(keys)` -/
def stableArgsort (keys : List Int) : List Nat :=
  (List.range keys.length).foldl (fun acc i => insertByKey (fun k => keys.getD k 0) i acc) []

/-- first loop of `_touching_windows`: for every container start `t0` advance `left_i` while
`thing_end[left_i] <= t0`; `things` is the not yet skipped suffix, `li` the index of its head -/
def twLeft : List Row → Nat → List Int → List Nat
  | _, _, [] => []
  | things, li, t0 :: rest =>
    let k := (things.takeWhile fun r => decide (r.endt ≤ t0)).length
    (li + k) :: twLeft (things.drop k) (li + k) rest

/-- second loop: containers in order of (stably sorted) end time; advance `right_i` while
`thing_start[right_i] < t1`. Returns `(container index, right_i)` pairs. -/
def twRight : List Row → Nat → List (Nat × Int) → List (Nat × Nat)
  | _, _, [] => []
  | things, ri, (ci, t1) :: rest =>
    let k := (things.takeWhile fun r => decide (r.time < t1)).length
    (ci, ri + k) :: twRight (things.drop k) (ri + k) rest

/-- `strax.touching_windows(things, containers)` with `window = 0`; errors as in the wrapper -/
def touchingWindows (things containers : List Row) : Except Err (List (Nat × Nat)) :=
  if !sortedByTimeB things then .error .valueError
  else if !sortedByTimeB containers then .error .valueError
  else if !(things.all fun r => decide (r.endt ≥ r.time)) || !(containers.all fun r => decide (r.endt ≥ r.time)) then
    .error .valueError
  else if things.isEmpty || containers.isEmpty then .ok (containers.map fun _ => (0, 0))
  else
    let lefts := twLeft things 0 (containers.map (·.time))
    let order := stableArgsort (containers.map (·.endt))
    let rights := twRight things 0 (order.map fun i => (i, (containers.map (·.endt)).getD i 0))
    .ok ((List.range containers.length).map fun i =>
      (lefts.getD i 0, ((rights.find? fun q => q.1 == i).map (·.2)).getD 0))

/-- first half of the loop body of `_replace_merged`: `if orig_i == skip_end:` insert `merge[window_i]`
and advance to the next window (`none` = the sentinel `skip_start = skip_end = n_orig + 100`).
`pend` = merged rows not yet inserted, zipped with their windows. -/
def insertStep (i : Nat) (win : Option (Nat × Nat)) (pend : List (Row × (Nat × Nat))) (acc : List Row) :
    Option (Nat × Nat) × List (Row × (Nat × Nat)) × List Row :=
  match win, pend with
  | some (_, e), (m, _) :: pend' =>
    if i = e then
      match pend' with
      | [] => (none, [], m :: acc)
      | (_, w) :: _ => (some w, pend', m :: acc)
    else (win, pend, acc)
  | _, _ => (win, pend, acc)

/-- second half: `if orig_i >= skip_start: continue` else copy the row -/
def keepRow (i : Nat) (win : Option (Nat × Nat)) : Bool :=
  match win with
  | some (s, _) => decide (i < s)
  | none => true

/-- the loop `for orig_i in range(n_orig)` of `_replace_merged` (result accumulated in reverse) -/
def replaceLoop : List Row → Nat → Option (Nat × Nat) → List (Row × (Nat × Nat)) → List Row
    → List Row × Option (Nat × Nat) × List (Row × (Nat × Nat))
  | [], _, win, pend, acc => (acc.reverse, win, pend)
  | o :: os, i, win, pend, acc =>
    let st := insertStep i win pend acc
    replaceLoop os (i+1) st.1 st.2.1 (if keepRow i st.1 then o :: st.2.2 else st.2.2)

/-- `_replace_merged(result, orig, merge, skip_windows)` with `len(result)` as allocated by the
wrapper; the final assertions are `AssertionError`s. -/
def replaceMergedCore (orig merge : List Row) (windows : List (Nat × Nat)) : Except Err (List Row) :=
  match merge.zip windows with
  | [] => .error .other                      -- skip_windows[0] on an empty array
  | (m0, w0) :: pend' =>
    let nOrig := orig.length
    let skipN : Int := (windows.map fun w => (w.2 : Int) - (w.1 : Int)).sum
    let lenResult : Int := (orig.length : Int) - skipN + merge.length
    let (res, win, pend) := replaceLoop orig 0 (some w0) ((m0, w0) :: pend') []
    -- `if skip_end == n_orig:` still have to insert the last merged row
    match win, pend with
    | some (_, e), (m, _) :: rest =>
      if e = nOrig then
        if (res.length : Int) ≠ lenResult - 1 then .error .assertionError
        else if rest.length ≠ 0 then .error .assertionError       -- window_i == len(merge) - 1
        else .ok (res ++ [m])
      else .error .assertionError         -- result_i == len(result) fails or window_i != len(skip_windows)
    | _, _ =>
      if (res.length : Int) ≠ lenResult then .error .assertionError else .ok res

/-- `strax.replace_merged(orig, merge)` -/
def replaceMerged (orig merge : List Row) : Except Err (List Row) :=
  if merge.isEmpty then .ok orig
  else
    match touchingWindows orig merge with
    | .error e => .error e
    | .ok windows => replaceMergedCore orig merge windows

/-- definitional result for well-formed windows: `orig[0:s0] ++ [m0] ++ orig[e0:s1] ++ [m1] ++ … ++ orig[e_last:]` -/
def replaceSpec (orig : List Row) : Nat → List (Row × (Nat × Nat)) → List Row
  | from_, [] => orig.drop from_
  | from_, (m, (s, e)) :: rest => slice orig from_ s ++ m :: replaceSpec orig e rest

/-! ## add_lone_hits -/

/-- `_fc_in`: for every thing the index of the container that fully contains it (`none` = -1).
`cs` is the not yet skipped suffix of the containers, `bi` the index of its head. -/
def fcIn : List (Int × Int) → List (Int × Int) → Nat → List (Option Nat)
  | [], _, _ => []
  | (a0, a1) :: as, cs, bi =>
    let k := (cs.takeWhile fun c => decide (c.2 ≤ a0)).length
    let cs' := cs.drop k
    match cs' with
    | [] => (none :: as.map fun _ => none)          -- `break`
    | (b0, b1) :: _ =>
      (if b0 ≤ a0 ∧ a1 ≤ b1 then some (bi + k) else none) :: fcIn as cs' (bi + k)

def modifyNth (l : List α) (i : Nat) (f : α → α) : List α :=
  match l, i with
  | [], _ => []
  | x :: xs, 0 => f x :: xs
  | x :: xs, k+1 => x :: modifyNth xs k f

/-- what one contained lone hit does to its peak: area, per-channel area and one waveform sample grow by `a` -/
def loneUpdate (a : Rat) (ch idx : Nat) (p : Peak) : Peak :=
  { p with area := p.area + a, apc := addIdx p.apc ch a, data := addIdx p.data idx a }

/-- the loop of `_add_lone_hits` (sum waveform only) -/
def addLoneLoop (toPe : List Rat) : List (Option Nat × Hit) → List Peak → Except Err (List Peak)
  | [], peaks => .ok peaks
  | (none, _) :: rest, peaks => addLoneLoop toPe rest peaks
  | (some i, lh) :: rest, peaks =>
    match peaks[i]? with
    | none => .error .other
    | some p =>
      if p.dt = 0 then .error .other
      else
        let a := lh.area * toPe.getD lh.channel 0
        let index := Int.fdiv (lh.time - p.time) p.dt
        if index < 0 ∨ index > p.data.length then .error .valueError
        else
          addLoneLoop toPe rest (modifyNth peaks i (loneUpdate a lh.channel index.toNat))

def sortedInts : List Int → Bool
  | a :: b :: rest => decide (a ≤ b) && sortedInts (b :: rest)
  | _ => true

/-- `strax.add_lone_hits(peaks, lone_hits, to_pe)` incl. `_fully_contained_in_sanity` -/
def addLoneHits (toPe : List Rat) (peaks : List Peak) (lone : List Hit) : Except Err (List Peak) :=
  if !sortedInts (lone.map (·.time)) || !sortedInts (peaks.map (·.time)) then .error .valueError
  else if !(lone.all fun h => decide (h.endt ≥ h.time)) || !(peaks.all fun p => decide (p.endt ≥ p.time)) then .error .valueError
  else
    let fc := fcIn (lone.map fun h => (h.time, h.endt)) (peaks.map fun p => (p.time, p.endt)) 0
    addLoneLoop toPe (fc.zip lone) peaks

/-! ## _split_peaks (the splitter is an abstract list of yielded split indices per peak) -/

def NO_MORE_SPLITS : Int := -9999999

/-- a fragment created by `_split_peaks` -/
structure Frag where
  time : Int
  length : Int
  dt : Int
deriving Repr, DecidableEq, Inhabited

def Frag.endt (r : Frag) : Int := r.time + r.dt * r.length

/-- the inner loop `for split_i, bonus in split_finder(...)` for one peak.
`r["length"] = (split_i - prev_split_i) * p["dt"] / orig_dt` is a float division stored into int32. -/
def splitOne (pTime pDt origDt : Int) : Int → List Int → Except Err (List Frag)
  | _, [] => .ok []
  | prev, s :: rest =>
    if s = NO_MORE_SPLITS then splitOne pTime pDt origDt prev rest
    else if origDt = 0 then .error .other
    else
      let len := Int.tdiv ((s - prev) * pDt) origDt
      if len ≤ 0 then .error .valueError
      else
        match splitOne pTime pDt origDt s rest with
        | .error e => .error e
        | .ok fr => .ok ({ time := pTime + prev * pDt, length := len, dt := origDt } :: fr)

/-- `_split_peaks`: fragments of all peaks in order, and the `is_split` mask -/
def splitPeaksCore (origDt : Int) (minArea : Rat) : List (Peak × List Int) → Except Err (List Frag × List Bool)
  | [] => .ok ([], [])
  | (p, splits) :: rest =>
    let here : Except Err (List Frag) :=
      if p.area < minArea then .ok [] else splitOne p.time p.dt origDt 0 splits
    match here with
    | .error e => .error e
    | .ok fr =>
      match splitPeaksCore origDt minArea rest with
      | .error e => .error e
      | .ok (frs, mask) => .ok (fr ++ frs, (!fr.isEmpty) :: mask)

/-- what `NaturalBreaksSplitter.find_split_points` yields for a waveform of `n` samples whose
goodness of split peaks at `maxI` (`accept` = it exceeds the threshold). `fixed = false` is the code
before the fix of D15, which closed the last fragment at `len(w) - 1`. -/
def naturalBreaksYields (fixed : Bool) (n maxI : Int) (accept : Bool) : List Int :=
  if accept then [maxI, if fixed then n else n - 1, NO_MORE_SPLITS] else [NO_MORE_SPLITS]

/-- state of `LocalMinimumSplitter.find_split_points` -/
structure LMState where
  foundOne : Bool
  lastMax : Rat
  minSinceMax : Rat
  minSinceMaxI : Nat
deriving Repr, DecidableEq, Inhabited

/-- the sentinel `99999999999999.9` -/
def lmBig : Rat := 999999999999999 / 10

/-- `if x < min_since_max:` new minimum since the last maximum -/
def lmMin (st : LMState) (i : Nat) (x : Rat) : LMState :=
  if x < st.minSinceMax then { st with minSinceMax := x, minSinceMaxI := i } else st

/-- `if min(last_max, x) > max(min_since_max + min_height, min_since_max * min_ratio):` significant local minimum:
`yield min_since_max_i, 0.0` (`some k`), reset both finders -/
def lmYield (minHeight minRatio : Rat) (st : LMState) (i : Nat) (x : Rat) : LMState × Option Nat :=
  if min st.lastMax x > max (st.minSinceMax + minHeight) (st.minSinceMax * minRatio) then
    ({ st with foundOne := true, lastMax := x, minSinceMax := lmBig, minSinceMaxI := i }, some st.minSinceMaxI)
  else (st, none)

/-- `if x > last_max:` new maximum, reset the minimum finder -/
def lmMax (st : LMState) (i : Nat) (x : Rat) : LMState :=
  if x > st.lastMax then { st with lastMax := x, minSinceMax := lmBig, minSinceMaxI := i } else st

/-- loop body of `LocalMinimumSplitter.find_split_points` for sample `x` at index `i` -/
def lmStep (minHeight minRatio : Rat) (st : LMState) (i : Nat) (x : Rat) : LMState × Option Nat :=
  let r := lmYield minHeight minRatio (lmMin st i x) i x
  (lmMax r.1 i x, r.2)

/-- `for i, x in enumerate(w)`: the yielded split indices and the final `found_one` -/
def lmLoop (minHeight minRatio : Rat) : List Rat → Nat → LMState → List Int × Bool
  | [], _, st => ([], st.foundOne)
  | x :: xs, i, st =>
    let r := lmStep minHeight minRatio st i x
    let rest := lmLoop minHeight minRatio xs (i+1) r.1
    (match r.2 with
     | some k => (k : Int) :: rest.1
     | none => rest.1, rest.2)

/-- everything `LocalMinimumSplitter.find_split_points(w, dt, peak_i, min_height, min_ratio)` yields (first
components): the prominent local minima, then `len(w)` if there was at least one, then `NO_MORE_SPLITS` -/
def localMinimumYields (w : List Rat) (minHeight minRatio : Rat) : List Int :=
  let r := lmLoop minHeight minRatio w 0 { foundOne := false, lastMax := -lmBig, minSinceMax := lmBig, minSinceMaxI := 0 }
  r.1 ++ (if r.2 then [(w.length : Int)] else []) ++ [NO_MORE_SPLITS]

/-! ## symmetric_moving_average -/

/-- One iteration of the loop of `symmetric_moving_average` on the state `(asum, count)`.
`dropZero = true` is the code as it is now (`if just_out >= 0`), `false` the comparison before the
fix of D5 (`> 0`). -/
def smaStep (dropZero : Bool) (a : List Rat) (w n i : Nat) (st : Rat × Int) : Rat × Int :=
  let justOut : Int := (i : Int) - w - 1
  let drop := if dropZero then decide (justOut ≥ 0) else decide (justOut > 0)
  let st := if drop then (st.1 - a.getD justOut.toNat 0, st.2 - 1) else st
  if i + w < n then (st.1 + a.getD (i + w) 0, st.2 + 1) else st

/-- `for i in range(len(a))` (fuel = remaining iterations) -/
def smaLoop (dropZero : Bool) (a : List Rat) (w n : Nat) : Nat → Nat → Rat × Int → List Rat
  | 0, _, _ => []
  | fuel+1, i, st =>
    let st := smaStep dropZero a w n i st
    (st.1 / (st.2 : Rat)) :: smaLoop dropZero a w n fuel (i+1) st

/-- `symmetric_moving_average` with its two historical variants: `dropZero = false` is the code
before the fix of D5 (`just_out > 0`), `clampCount = false` the code before the fix of D14
(`count = wing_width` instead of `min(wing_width, n)`). -/
def smaGen (dropZero clampCount : Bool) (a : List Rat) (w : Nat) : List Rat :=
  if w = 0 then a
  else smaLoop dropZero a w a.length a.length 0 ((a.take w).sum, if clampCount then ((min w a.length : Nat) : Int) else (w : Int))

/-- `strax.symmetric_moving_average(a, wing_width)` as it is now -/
def symmetricMovingAverage (a : List Rat) (w : Nat) : List Rat := smaGen true true a w

/-- defining formula: mean of the samples with index in `[i-w, i+w] ∩ [0, n)` -/
def windowMean (a : List Rat) (w i : Nat) : Rat :=
  let lo := i - w
  let hi := min a.length (i + w + 1)
  (slice a lo hi).sum / ((hi - lo : Nat) : Rat)

/-! ## index_of_fraction, compute_widths -/

/-- the `while fraction_seen + fraction_this_sample >= needed_fraction` loop for one sample.
Returns the results stored and the fractions still open. -/
def iofInner (areaTot x : Rat) (i : Nat) (seen : Rat) : List Rat → List Rat × List Rat
  | [] => ([], [])
  | f :: rest =>
    if seen + x / areaTot ≥ f then
      let r : Rat := if x ≠ 0 then (i : Rat) + areaTot * (f - seen) / x else (i : Rat)
      let (rs, rem) := iofInner areaTot x i seen rest
      (r :: rs, rem)
    else ([], f :: rest)

/-- the `for i, x in enumerate(data)` loop; entries never reached stay 0 -/
def iofLoop (areaTot : Rat) : List Rat → Nat → Rat → List Rat → List Rat × List Rat
  | [], _, _, rem => ([], rem)
  | x :: xs, i, seen, rem =>
    let (rs, rem') := iofInner areaTot x i seen rem
    if rem'.isEmpty then (rs, [])
    else
      let (rs', rem'') := iofLoop areaTot xs (i+1) (seen + x / areaTot) rem'
      (rs ++ rs', rem'')

def setLast (l : List Rat) (v : Rat) : List Rat :=
  match l.reverse with
  | [] => []
  | _ :: r => (v :: r).reverse

/-- `compute_index_of_fraction(peak, fractions_desired, result)` on a zeroed `result`;
`fractions` must be non-empty (the code reads `fractions_desired[0]` unconditionally). -/
def computeIndexOfFraction (wave : List Rat) (length : Int) (areaTot : Rat) (fractions : List Rat) : List Rat :=
  let (rs, rem) := iofLoop areaTot wave 0 0 fractions
  let res := rs ++ rem.map fun _ => (0 : Rat)
  -- `needed_fraction` after the loop: the open one, or the last one if all were reached
  let needed := match rem with
    | f :: _ => some f
    | [] => fractions.getLast?
  if needed = some 1 then setLast res (length : Rat) else res

/-- `index_of_fraction` for one peak (rows with `area <= 0` stay zero) -/
def indexOfFraction (p : Peak) (fractions : List Rat) : List Rat :=
  if p.area ≤ 0 then fractions.map fun _ => (0 : Rat)
  else computeIndexOfFraction p.wave p.length p.area fractions

/-- defining formula: the first sample `i` in which the cumulated area reaches `f·A`, plus the
linear interpolation inside that sample -/
def reachIndex (areaTot : Rat) (f : Rat) : List Rat → Nat → Rat → Option Rat
  | [], _, _ => none
  | x :: xs, i, cum =>
    if cum + x ≥ f * areaTot then some (if x ≠ 0 then (i : Rat) + (f * areaTot - cum) / x else (i : Rat))
    else reachIndex areaTot f xs (i+1) (cum + x)

/-- insertion into an ascending list without duplicates (`np.unique` + sort) -/
def insertUnique (x : Rat) : List Rat → List Rat
  | [] => [x]
  | y :: ys => if x < y then x :: y :: ys else if x = y then y :: ys else y :: insertUnique x ys

/-- every second element: `a[::2]` -/
def everySecond : List Rat → List Rat
  | [] => []
  | [x] => [x]
  | x :: _ :: rest => x :: everySecond rest

/-- the area fractions `compute_widths` asks for, for `n_widths = nW` -/
def widthFractions (nW : Nat) : List Rat :=
  let dw := ((List.range nW).drop 1).map fun (k : Nat) => (k : Rat) / ((nW - 1 : Nat) : Rat)   -- linspace(0,1,nW)[1:]
  let fr := dw.map (fun w => (1/2 : Rat) - w / 2) ++ dw.map (fun w => (1/2 : Rat) + w / 2) ++ [1/2]
  fr.foldl (fun acc x => insertUnique x acc) []

/-- `compute_widths` for one peak: `(median_time, width, area_decile_from_midpoint)` -/
def computeWidths (p : Peak) (nW : Nat) : Rat × List Rat × List Rat :=
  let fr := widthFractions nW
  let times := (indexOfFraction p fr).map (· * (p.dt : Rat))
  let i := fr.length / 2
  let med := times.getD i 0
  let width := List.zipWith (· - ·) (times.drop i) (times.reverse.drop i)
  (med, width, (everySecond times).map (· - med))

/-! ## highest_density_region -/

/-- insertion into a list of indices sorted ascending by `data` value, after equal values (stable) -/
def insertByVal (data : List Rat) (i : Nat) : List Nat → List Nat
  | [] => [i]
  | j :: js => if data.getD i 0 < data.getD j 0 then i :: j :: js else j :: insertByVal data i js

/-- `stable_argsort(data)[::-1]` -/
def maxToMin (data : List Rat) : List Nat :=
  ((List.range data.length).foldl (fun acc i => insertByVal data i acc) []).reverse

def insertNat (i : Nat) : List Nat → List Nat
  | [] => [i]
  | j :: js => if i ≤ j then i :: j :: js else j :: insertNat i js

def sortNat (l : List Nat) : List Nat := l.foldl (fun acc i => insertNat i acc) []

/-- maximal runs of consecutive indices of an ascending index list, as half-open `(start, end)` -/
def runsOf : List Nat → List (Nat × Nat)
  | [] => []
  | i :: rest =>
    match runsOf rest with
    | (s, e) :: more => if s = i + 1 then (i, e) :: more else (i, i + 1) :: (s, e) :: more
    | [] => [(i, i + 1)]

/-- one result row of `_process_intervals_numba`: the runs, or all `-1` when they do not fit into the
`bufSize` slots; unused slots stay 0. `fixed = true` is the code as it is now (`if len(gaps) >= _buffer_size`),
`false` the comparison before the fix of D30 (`>`), which let `bufSize + 1` runs through — one more than the
buffer holds (an out-of-bounds write in the real code; here: a row that is longer than the buffer). -/
def hdrRowGen (fixed : Bool) (bufSize : Nat) (ind : List Nat) : List (Int × Int) :=
  let runs := runsOf ind
  let nGaps := runs.length - 1
  if (if fixed then decide (nGaps ≥ bufSize) else decide (nGaps > bufSize)) then List.replicate bufSize (-1, -1)
  else (runs.map fun r => ((r.1 : Int), (r.2 : Int))) ++ List.replicate (bufSize - runs.length) (0, 0)

def hdrRow (bufSize : Nat) (ind : List Nat) : List (Int × Int) := hdrRowGen true bufSize ind

structure HdrState where
  lowest : Option Rat       -- `lowest_sample_seen` (`inf` = none)
  open_ : List Rat          -- fractions_desired[fi:]
  rows : List (List (Int × Int) × Rat)   -- finished rows (reverse order): intervals, amplitude
deriving Repr, DecidableEq, Inhabited

/-- serve the open fractions at one level: `m = fractions_desired[fi:] <= fraction_seen`, then the first
`np.sum(m)` open fractions get the current intervals `ind` and their interpolated amplitude -/
def hdrServe (bufSize : Nat) (ind : List Nat) (topSum : Rat) (j : Nat) (low fractionSeen dj : Rat) (st : HdrState) : HdrState :=
  let nPass := (st.open_.filter fun f => decide (f ≤ fractionSeen)).length     -- np.sum(m)
  let st := { st with lowest := some dj }
  if nPass = 0 then st
  else
    let newRows := (st.open_.take nPass).map fun f =>
      let g := f / fractionSeen
      (hdrRow bufSize ind, (1 - g) * topSum / (j : Rat) + g * low)
    { st with open_ := st.open_.drop nPass, rows := newRows.reverse ++ st.rows }

/-- body of `for j in range(1, len(data))` -/
def hdrStep (data : List Rat) (order : List Nat) (areaTot : Rat) (upper : Bool) (bufSize : Nat)
    (st : HdrState) (j : Nat) : HdrState :=
  if st.open_.isEmpty then st                         -- already returned
  else
    let dj := data.getD (order.getD j 0) 0
    if st.lowest = some dj then st                    -- continue
    else
      let low : Rat := if upper then dj else 0         -- `lowest_sample_seen *= int(only_upper_part)`
      let top := (order.take j).map fun k => data.getD k 0
      let fractionSeen := (top.map (· - low)).sum / areaTot
      hdrServe bufSize (sortNat (order.take j)) top.sum j low fractionSeen dj st

/-- `strax.highest_density_region(data, fractions_desired, only_upper_part, _buffer_size)`:
per desired fraction the list of `_buffer_size` interval slots and the amplitude. Note that the
`j`-loop never looks at the smallest sample (`range(1, len(data))`) and that the first
`np.sum(m)` open fractions are served, whichever entries of `m` are true. -/
def highestDensityRegion (data : List Rat) (fractions : List Rat) (upper : Bool) (bufSize : Nat) :
    Except Err (List (List (Int × Int) × Rat)) :=
  let areaTot := data.sum
  if areaTot ≤ 0 then .error .valueError
  else
    let order := maxToMin data
    let st := (List.range data.length).drop 1 |>.foldl (hdrStep data order areaTot upper bufSize)
      { lowest := none, open_ := fractions, rows := [] }
    let rest := st.open_.map fun f =>
      (((0 : Int), (data.length : Int)) :: List.replicate (bufSize - 1) ((0 : Int), (0 : Int)),
       (1 - f) * data.sum / (data.length : Rat))
    .ok (st.rows.reverse ++ rest)

end Strax.Peaks
