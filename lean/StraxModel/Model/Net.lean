import StraxModel.Model.Basic
/-
  T6 (networks) — `ThreadedMailboxProcessor` as a network of mailboxes and threads.

  Two layers.

  1. `wire : Components → Opts → Consumer → Net` mirrors `ThreadedMailboxProcessor.__init__` + the subscription
     made by `iter()`: which mailboxes exist (creation order of the `MailboxDict`), which thread sends into which
     mailbox (`load:d`, `build:d`, `divide_outputs:d`), the readers with their `can_drive` flags in subscription
     order (plugin dependencies, the `divide_outputs` reader, `save_i:d` with `can_drive = not lazy`, `discard_d`,
     finally the consumer), `lazy` (only without worker pool), `max_messages` overwritten on EVERY mailbox (so a lazy
     mailbox inside a pipeline is bounded too) with the per-plugin override, `flow_freely` (one shared set object:
     every divider sees the final set), `to_discard`.  A stage (loader, `Plugin.iter`) is an abstract program
     `read dep | emit | fail e`; savers and the consumer carry fault-injection points.  `wire` compiles every thread
     into a flat program over mailbox primitives (`gate / read / send / close / fail`) plus its exception
     epilogue (`kill_from_exception`, `save_from`'s handlers, the `iter()` epilogue: kill all with
     `upstream=True`, join, re-raise, `got_exception`).

  2. `step` — the interleaving semantics of a `Net` over ABSTRACT mailboxes: a thread blocked in
     `Condition.wait_for(pred)` is enabled iff `pred` holds ("guard semantics").  This is sound for the real
     mailbox because of the mailbox-level theorems of Props/C05 / Props/C06 about Model/Mailbox.lean (a waiter whose
     predicate is true has been notified: `wakeR / wakeW / wakeF`, `kill_wakes_all`; a notified waiter re-checks the
     kill flags: `send_rechecks_after_wait`, `killed_reader_raises`).  Inside a pipeline every send is auto-numbered
     by the single sender thread and every kill has `upstream=True`, so the buffer of a mailbox is the contiguous
     range `[min(next), nSent)` and `killed = force_killed`; the abstract mailbox keeps just those numbers.
     `StopIteration` sent by `close` counts as one more message.

  Not modelled here: futures / worker pools (a message is a value), the rechunker inside `save_from`
  (identity), process pools, timeouts (a timeout only fires in a deadlock, which is what the theorems exclude).
-/
namespace Strax.Net
open Strax

/-! ## 1. description of the components -/

/-- one instruction of a stage program (`Plugin.iter`, a loader) -/
inductive SInstr where
  | read (dep : Nat)      -- `next(iters[depends_on[dep]])`
  | emit                  -- `yield` a result
  | fail (e : Nat)        -- raise the injected exception `e`
deriving Repr, DecidableEq, Inhabited

structure PluginD where
  cls : String                    -- `p.__class__.__name__`
  provides : List String
  dependsOn : List String
  maxMessages : Option Nat := none
  prog : List SInstr := []
deriving Repr, DecidableEq, Inhabited

structure SaverD where
  failAt : Option Nat := none     -- `saver.save` raises at this chunk
  failClose : Bool := false       -- `saver.close()` raises when `save_from` calls it from its `finally`
  exc : Nat := 0
deriving Repr, DecidableEq, Inhabited

structure Components where
  plugins : List (String × Nat)          -- `components.plugins` in dict order: data type ↦ index into `defs`
  defs : List PluginD
  loaders : List (String × List SInstr)  -- `components.loaders` in dict order, with the loader's program
  savers : List (String × List SaverD)   -- `components.savers` in dict order
  targets : List String
deriving Repr, DecidableEq, Inhabited

structure Opts where
  allowLazy : Bool := true
  maxWorkers : Option Nat := none
  maxMessages : Nat := 4
  guardedClose : Bool := true   -- `divide_outputs` closes its outputs under its exception handler (since the fix of D28)
deriving Repr, DecidableEq, Inhabited

/-- what the consumer of `iter()` does -/
inductive Consumer where
  | drain
  | failAt (k : Nat) (e : Nat)   -- after k chunks an exception reaches the generator (raise in the loop body, `close()`)
deriving Repr, DecidableEq, Inhabited

/-! ## 2. the net -/

inductive Exc where
  | inj (id : Nat)
  | alreadyClosed           -- `MailBoxAlreadyClosed` (send after close; never happens with one sender per mailbox)
deriving Repr, DecidableEq, Inhabited

inductive Instr where
  | gate (m : Nat)           -- the lazy fetch gate of `_send_from` / `divide_outputs` on mailbox m
  | read (m s : Nat)         -- `next()` on the `_read` generator of subscriber s of mailbox m
  | send (m : Nat)           -- `m.send(x)` with the automatic number
  | close (m : Nat)          -- `m.close()`
  | fail (e : Nat)           -- the thread's own code raises
  | die (e : Nat)            -- `saver.close()` raises in the `finally` of `save_from`: `got_exception = e`, the thread ends,
                             -- nobody is told (the mailbox has delivered everything already)
  | killIfExc (m : Nat)      -- epilogue: `m.kill(upstream=True, reason)` if an exception is being handled
  | killIfOwn (m : Nat)      -- epilogue: the same, only if the exception is the thread's own (`source.throw(e)`)
  | join (t : Nat)           -- `Thread.join` (blocks until thread t has ended)
  | finish (savers : List Nat)  -- end of `iter()`: re-raise / `got_exception` of the listed saver threads / return
  | setEpi (ms : List Nat)   -- enter the scope of another exception handler: from now on an exception kills mailboxes `ms`
  | dropEpi                  -- leave the scope of the exception handler (the closing loop of `divide_outputs` BEFORE the
                             -- fix of D28 sat in the `else:` branch of the try statement)
deriving Repr, DecidableEq, Inhabited

structure MBSpec where
  name : String
  lazy : Bool
  cap : Nat
  drive : List Bool          -- `_subscriber_can_drive`
  threads : List String      -- names of `_threads`, in order
deriving Repr, DecidableEq, Inhabited

structure Thread where
  name : String
  body : List Instr
  epi : List Instr           -- where control goes when an exception is raised in the body
  subs : List (Nat × Nat) := []     -- the subscriptions it holds (for the wiring dump)
  free : List String := []   -- `flow_freely` seen by a `divide_outputs` reader (sorted), for the wiring dump
  outs : List String := []   -- `outputs` of a `divide_outputs` reader, for the wiring dump
deriving Repr, DecidableEq, Inhabited

structure Net where
  mbs : List MBSpec
  threads : List Thread      -- per mailbox in dict order, per mailbox in `_threads` order; the consumer last
deriving Repr, DecidableEq, Inhabited

/-! ### wiring -/

def lazyOf (o : Opts) : Bool :=
  match o.maxWorkers with
  | none => o.allowLazy
  | some 1 => o.allowLazy
  | some _ => false

def Components.pluginOf (c : Components) (d : String) : Option PluginD :=
  match c.plugins.find? (fun x => x.1 == d) with
  | some (_, i) => c.defs[i]?
  | none => none

def countEmit : List SInstr → Nat
  | [] => 0
  | .emit :: r => countEmit r + 1
  | _ :: r => countEmit r

def dividerName (p : PluginD) : String := p.cls ++ "_divide_outputs"

/-- builder state: mailboxes in creation order; every mailbox keeps its threads -/
structure WMB where
  name : String
  drive : List Bool := []
  threads : List Thread := []
deriving Repr, Inhabited

abbrev W := List WMB

def W.find (w : W) (name : String) : Option Nat := w.findIdx? (fun m => m.name == name)

/-- `self.mailboxes[name]` (`MailboxDict.__missing__`) -/
def W.touch (w : W) (name : String) : W × Nat :=
  match w.find name with
  | some i => (w, i)
  | none => (w ++ [{ name := name }], w.length)

def W.modify (w : W) (i : Nat) (f : WMB → WMB) : W :=
  match w[i]? with
  | some m => w.set i (f m)
  | none => w

/-- `self.mailboxes[name].subscribe(can_drive)` → (mailbox index, subscriber index) -/
def W.subscribe (w : W) (name : String) (drive : Bool) : W × Nat × Nat :=
  let (w1, i) := w.touch name
  let s := match w1[i]? with
    | some m => m.drive.length
    | none => 0
  (w1.modify i fun m => { m with drive := m.drive ++ [drive] }, i, s)

def W.addThread (w : W) (i : Nat) (t : Thread) : W := w.modify i fun m => { m with threads := m.threads ++ [t] }

/-- subscribe to every dependency, in `depends_on` order -/
def W.subscribeAll (w : W) : List String → W × List (Nat × Nat)
  | [] => (w, [])
  | d :: r =>
    let (w1, i, s) := w.subscribe d true
    let (w2, rest) := W.subscribeAll w1 r
    (w2, (i, s) :: rest)

/-- `_send_from(iterable)` over a stage program: the gate before every `next(iterable)`, a `send` per result,
`close` at exhaustion -/
def compileStage (lazy : Bool) (m : Nat) (inputs : List (Nat × Nat)) : List SInstr → List Instr
  | [] => [.close m]
  | .emit :: r => .send m :: ((if lazy then [.gate m] else []) ++ compileStage lazy m inputs r)
  | .read k :: r =>
    (match inputs[k]? with
     | some (i, s) => [.read i s]
     | none => []) ++ compileStage lazy m inputs r
  | .fail e :: r => .fail e :: compileStage lazy m inputs r

def senderThread (name : String) (lazy : Bool) (m : Nat) (inputs : List (Nat × Nat)) (prog : List SInstr) : Thread :=
  { name := name, body := (if lazy then [.gate m] else []) ++ compileStage lazy m inputs prog,
    epi := [.killIfExc m], subs := inputs }

def replicate' (n : Nat) (l : List Instr) : List Instr := (List.replicate n l).flatten

/-- `divide_outputs(source, mailboxes, lazy, flow_freely, outputs)` for a source that yields `count` dicts -/
def dividerThread (name : String) (lazy : Bool) (src : Nat × Nat) (outs : List (Nat × String)) (free : List String)
    (count : Nat) (guarded : Bool := true) : Thread :=
  let gates := if lazy then (outs.filter fun o => !free.contains o.2).map (fun o => Instr.gate o.1) else []
  let round := gates ++ [.read src.1 src.2] ++ outs.map (fun o => Instr.send o.1)
  -- handler of the main loop: `source.throw(e)` (the `_read` generator of the divider mailbox turns that into
  -- `kill(upstream=True)` of the SOURCE mailbox), then `kill_from_exception` on every output;
  -- handler of the closing loop (since the fix of D28): the outputs only
  let killOuts := outs.map (fun o => Instr.killIfExc o.1)
  let final := gates ++ [.read src.1 src.2] ++ (if guarded then [.setEpi (outs.map (·.1))] else [.dropEpi]) ++
    outs.map (fun o => Instr.close o.1)
  { name := name, body := replicate' count round ++ final, epi := .killIfExc src.1 :: killOuts,
    subs := [src], free := free, outs := outs.map (·.2) }

/-- `saver.save_from(source)`: one `save` per chunk; `close` in the `finally` -/
def saverThread (name : String) (src : Nat × Nat) (count : Nat) (sv : SaverD) : Thread :=
  let rd := Instr.read src.1 src.2
  let chunks := match sv.failAt with
    | some k => if k < count then replicate' (k + 1) [rd] ++ [.fail sv.exc] ++ replicate' (count - k - 1) [rd]
                else replicate' count [rd]
    | none => replicate' count [rd]
  { name := name, body := chunks ++ [rd] ++ (if sv.failClose then [.die sv.exc] else []),
    epi := [.killIfOwn src.1], subs := [src] }

def readerThread (name : String) (src : Nat × Nat) (count : Nat) : Thread :=
  { name := name, body := replicate' (count + 1) [.read src.1 src.2], epi := [], subs := [src] }

def dedup : List String → List String
  | [] => []
  | x :: r => if r.contains x then dedup r else x :: dedup r

def insertSorted (x : String) : List String → List String
  | [] => [x]
  | y :: r => if x < y then x :: y :: r else if x == y then y :: r else y :: insertSorted x r

def sortStrings (l : List String) : List String := l.foldr insertSorted []

structure Sets where
  flowFreely : List String
  discard : List String

/-- `to_flow_freely |= set(p.provides) - {d}` for every multi-output plugin at its first key `d` -/
def doubleDeps (c : Components) : List (String × Nat) → List Nat → List String
  | [], _ => []
  | (d, pi) :: rest, seen =>
    if seen.contains pi then doubleDeps c rest seen
    else
      match c.defs[pi]? with
      | none => doubleDeps c rest seen
      | some p =>
        if p.provides.length > 1 then p.provides.filter (· != d) ++ doubleDeps c rest (pi :: seen)
        else doubleDeps c rest seen

/-- the `produced / required / saved` bookkeeping at the top of `__init__`, and the later
`to_flow_freely |= double_dependency` updates (the dividers hold a reference to the one set) -/
def Components.sets (c : Components) : Sets :=
  let ps := c.plugins.filterMap fun x => c.defs[x.2]?
  let produced := c.loaders.map (·.1) ++ ps.flatMap (·.provides)
  let required := c.targets ++ ps.flatMap (·.dependsOn)
  let saved := (c.savers.filter fun x => !x.2.isEmpty).map (·.1)
  let ff0 := (dedup produced).filter fun d => !required.contains d
  let discard := ff0.filter fun d => !saved.contains d
  { flowFreely := sortStrings (dedup (ff0 ++ doubleDeps c c.plugins [])), discard := sortStrings discard }

/-- the plugin loop of `__init__` -/
def wirePlugins (c : Components) (lazy : Bool) (free : List String) (guarded : Bool := true) :
    List (String × Nat) → List Nat → W → W
  | [], _, w => w
  | (d, pi) :: rest, seen, w =>
    if seen.contains pi then wirePlugins c lazy free guarded rest seen w
    else
      match c.defs[pi]? with
      | none => wirePlugins c lazy free guarded rest seen w
      | some p =>
        if p.provides.length > 1 then
          let mname := dividerName p
          let (w1, mi) := w.touch mname
          let (w2, inputs) := w1.subscribeAll p.dependsOn
          let w3 := w2.addThread mi (senderThread s!"divide_outputs:{d}" lazy mi inputs p.prog)
          -- `add_reader(partial(divide_outputs, mailboxes={k: self.mailboxes[k] for k in divided}, …))`:
          -- the dict comprehension is evaluated before `add_reader` subscribes
          -- outputs that are loaded from storage already have a sender (their loader): the divider only
          -- gets `divided = tuple(k for k in p.provides if k not in components.loaders)`   (fix of D13)
          let divided := p.provides.filter fun k => !(c.loaders.any fun x => x.1 == k)
          let (w4, outs) := divided.foldl (fun (acc : W × List (Nat × String)) k =>
            let (wa, i) := acc.1.touch k
            (wa, acc.2 ++ [(i, k)])) (w3, [])
          let (w5, _, s) := w4.subscribe mname true
          let w6 := w5.addThread mi (dividerThread s!"read_{s}:{mname}_mailbox" lazy (mi, s) outs free (countEmit p.prog) guarded)
          wirePlugins c lazy free guarded rest (pi :: seen) w6
        else
          let (w1, mi) := w.touch d
          let (w2, inputs) := w1.subscribeAll p.dependsOn
          let w3 := w2.addThread mi (senderThread s!"build:{d}" lazy mi inputs p.prog)
          wirePlugins c lazy free guarded rest seen w3

/-- number of messages (without the final `StopIteration`) the sender of a mailbox produces -/
def Components.countOf (c : Components) (name : String) : Nat :=
  match c.loaders.find? (fun x => x.1 == name) with
  | some (_, prog) => countEmit prog
  | none =>
    match c.defs.find? (fun p => p.provides.contains name || dividerName p == name) with
    | some p => countEmit p.prog
    | none => 0

def wireSavers (c : Components) (lazy : Bool) : List (String × List SaverD) → W → W
  | [], w => w
  | (d, svs) :: rest, w =>
    let built := (c.plugins.filterMap fun x => c.defs[x.2]?).any fun p => p.provides.contains d
    let canDrive := if built then !lazy else true
    let w' := (List.range svs.length).zip svs |>.foldl (fun (w : W) (x : Nat × SaverD) =>
      let (w1, i, s) := w.subscribe d canDrive
      w1.addThread i (saverThread s!"save_{x.1}:{d}" (i, s) (c.countOf d) x.2)) w
    wireSavers c lazy rest w'

def wireDiscard (c : Components) : List String → W → W
  | [], w => w
  | d :: rest, w =>
    match w.find d with
    | none => wireDiscard c rest w         -- `self.mailboxes[d]` would create an empty mailbox; never happens
    | some _ =>
      let (w1, i, s) := w.subscribe d true
      wireDiscard c rest (w1.addThread i (readerThread s!"discard_{d}" (i, s) (c.countOf d)))

def capOf (c : Components) (o : Opts) (name : String) : Nat :=
  match c.pluginOf name with
  | some p => p.maxMessages.getD o.maxMessages
  | none => o.maxMessages

/-- positions of the threads of a `W` in the flattened list: (mailbox index, position) ↦ global index -/
def W.flat (w : W) : List Thread := w.flatMap (·.threads)

/-- `ThreadedMailboxProcessor(components, …)` followed by the `subscribe()` + `start()` of `iter()` -/
def wire (c : Components) (o : Opts) (consumer : Consumer) : Net :=
  let lazy := lazyOf o
  let sets := c.sets
  let w0 : W := c.loaders.foldl (fun (w : W) (x : String × List SInstr) =>
    let (w1, i) := w.touch x.1
    w1.addThread i (senderThread s!"load:{x.1}" lazy i [] x.2)) []
  let w1 := wirePlugins c lazy sets.flowFreely o.guardedClose c.plugins [] w0
  let w2 := wireSavers c lazy c.savers w1
  let w3 := wireDiscard c sets.discard w2
  let target := c.targets.headD ""
  let (w4, ti, ts) := w3.subscribe target true
  let others := w4.flat
  -- saver threads in the order of `components.savers` (dict order, then list order)
  let saverIdx := c.savers.flatMap fun (d, svs) =>
    (List.range svs.length).filterMap fun k => others.findIdx? (fun t => t.name == s!"save_{k}:{d}")
  let rd := Instr.read ti ts
  let count := c.countOf target
  let reads := match consumer with
    | .drain => replicate' (count + 1) [rd]
    | .failAt k e => replicate' k [rd] ++ [.fail e] ++ replicate' (count + 1 - k) [rd]
  let main : Thread :=
    { name := "main", body := reads,
      -- an exception thrown into the generator at its `yield` (the consumer gave up) first passes `_read`'s handler, which
      -- kills the TARGET mailbox; then `iter()` kills every mailbox in dict order (a `MailboxKilled` coming out of the target
      -- finds it killed already, so the leading kill is a no-op then)
      epi := (Instr.killIfExc ti :: (List.range w4.length).map Instr.killIfExc) ++ (List.range others.length).map Instr.join ++
        [.finish saverIdx],
      subs := [(ti, ts)] }
  { mbs := w4.map fun m => { name := m.name, lazy := lazy, cap := capOf c o m.name, drive := m.drive,
                              threads := m.threads.map (·.name) },
    threads := others ++ [{ main with body := main.body ++ main.epi }] }

/-! ## 3. semantics -/

structure ASub where
  next : Nat := 0                 -- `have_read + 1` (= the generator's `next_number` at its last critical section)
  buffered : Nat := 0             -- collected by `_read` but not yet yielded
  waiting : Option Nat := none    -- `_subscriber_waiting_for`
deriving Repr, DecidableEq, Inhabited

structure AMB where
  nSent : Nat := 0
  closed : Bool := false
  killed : Bool := false          -- every kill in a pipeline has `upstream=True`: killed = force_killed
  reason : Option Exc := none     -- `killed_because`
  subs : List ASub := []
deriving Repr, DecidableEq, Inhabited

inductive Outcome where
  | returned
  | raised (e : Exc)
deriving Repr, DecidableEq, Inhabited

structure TSt where
  prog : List Instr
  epi : List Instr
  inEpi : Bool := false
  exc : Option (Bool × Exc) := none    -- (raised by the thread's own code?, the exception / kill reason)
deriving Repr, DecidableEq, Inhabited

structure NState where
  mbs : List AMB
  thr : List TSt
  outcome : Option Outcome := none
deriving Repr, DecidableEq, Inhabited

def minNext : List ASub → Nat
  | [] => 0
  | [a] => a.next
  | a :: b :: r => min a.next (minNext (b :: r))

def AMB.heapLen (a : AMB) : Nat := a.nSent - minNext a.subs

/-- `_can_fetch` (with the `_has_msg` test: a buffered number is one in `[min next, nSent)`) -/
def canFetch (sp : MBSpec) (a : AMB) : Bool :=
  if a.killed then true
  else if a.subs.any (fun s => match s.waiting with
      | some x => decide (x < a.nSent)
      | none => false) then false
  else (a.subs.zip sp.drive).any fun (s, d) => d && s.waiting.isSome

def AMB.kill (a : AMB) (r : Exc) : AMB := if a.killed then a else { a with killed := true, reason := some r }

def NState.modMB (s : NState) (m : Nat) (f : AMB → AMB) : NState :=
  match s.mbs[m]? with
  | some a => { s with mbs := s.mbs.set m (f a) }
  | none => s

def AMB.modSub (a : AMB) (i : Nat) (f : ASub → ASub) : AMB :=
  match a.subs[i]? with
  | some sb => { a with subs := a.subs.set i (f sb) }
  | none => a

def NState.setThr (s : NState) (t : Nat) (ts : TSt) : NState := { s with thr := s.thr.set t ts }

/-- an exception is raised in the body: control goes to the epilogue -/
def TSt.raise (ts : TSt) (own : Bool) (e : Exc) : TSt :=
  if ts.inEpi then { ts with prog := ts.prog.tail }      -- (no instruction of an epilogue raises)
  else { ts with prog := ts.epi, inEpi := true, exc := some (own, e) }

def TSt.advance (ts : TSt) : TSt := { ts with prog := ts.prog.tail }

def TSt.ended (ts : TSt) : Bool := ts.prog.isEmpty

/-- the first `got_exception` among the saver threads, in `components.savers` order -/
def firstSaverExc (thr : List TSt) : List Nat → Option Exc
  | [] => none
  | k :: r =>
    match thr[k]? with
    | some ts =>
      (match ts.exc with
       | some (true, e) => some e
       | _ => firstSaverExc thr r)
    | none => firstSaverExc thr r

/-- one atomic step of thread `t`; `none` = not enabled (blocked, ended or non-existent) -/
def step (net : Net) (s : NState) (t : Nat) : Option NState :=
  match s.thr[t]? with
  | none => none
  | some ts =>
    match ts.prog with
    | [] => none
    | .gate m :: _ =>
      (match net.mbs[m]?, s.mbs[m]? with
       | some sp, some a => if canFetch sp a then some (s.setThr t ts.advance) else none
       | _, _ => some (s.setThr t ts.advance))
    | .read m i :: _ =>
      (match s.mbs[m]? with
       | none => some (s.setThr t ts.advance)
       | some a =>
         match a.subs[i]? with
         | none => some (s.setThr t ts.advance)
         | some sb =>
           if sb.buffered > 0 then
             some ((s.modMB m fun a => a.modSub i fun sb => { sb with buffered := sb.buffered - 1 }).setThr t ts.advance)
           else if a.killed then
             some ((s.modMB m fun a => a.modSub i fun sb => { sb with waiting := none }).setThr t
               (ts.raise false (a.reason.getD .alreadyClosed)))
           else if sb.next < a.nSent then
             some ((s.modMB m fun a => a.modSub i fun sb =>
               { sb with buffered := a.nSent - sb.next - 1, next := a.nSent, waiting := none }).setThr t ts.advance)
           else if sb.waiting.isNone then
             some (s.modMB m fun a => a.modSub i fun sb => { sb with waiting := some sb.next })
           else none)
    | .send m :: _ =>
      (match net.mbs[m]?, s.mbs[m]? with
       | some sp, some a =>
         if a.closed then some (s.setThr t (ts.raise true .alreadyClosed))
         else if a.killed then some (s.setThr t (ts.raise false (a.reason.getD .alreadyClosed)))
         else if a.heapLen < sp.cap then some ((s.modMB m fun a => { a with nSent := a.nSent + 1 }).setThr t ts.advance)
         else none
       | _, _ => some (s.setThr t ts.advance))
    | .close m :: _ =>
      (match net.mbs[m]?, s.mbs[m]? with
       | some sp, some a =>
         if a.closed then some (s.setThr t (ts.raise true .alreadyClosed))
         else if a.killed then some (s.setThr t (ts.raise false (a.reason.getD .alreadyClosed)))
         else if a.heapLen < sp.cap then
           some ((s.modMB m fun a => { a with nSent := a.nSent + 1, closed := true }).setThr t ts.advance)
         else none
       | _, _ => some (s.setThr t ts.advance))
    | .fail e :: _ => some (s.setThr t (ts.raise true (.inj e)))
    | .die e :: _ =>
      some (s.setThr t { ts with prog := [], exc := (match ts.exc with
        | some x => some x
        | none => some (true, .inj e)) })
    | .killIfExc m :: _ =>
      (match ts.exc with
       | some (_, r) => some ((s.modMB m fun a => a.kill r).setThr t ts.advance)
       | none => some (s.setThr t ts.advance))
    | .killIfOwn m :: _ =>
      (match ts.exc with
       | some (true, r) => some ((s.modMB m fun a => a.kill r).setThr t ts.advance)
       | _ => some (s.setThr t ts.advance))
    | .join u :: _ =>
      (match s.thr[u]? with
       | some tu => if tu.ended then some (s.setThr t ts.advance) else none
       | none => some (s.setThr t ts.advance))
    | .finish savers :: _ =>
      let out := match ts.exc with
        | some (_, e) => Outcome.raised e
        | none =>
          match firstSaverExc s.thr savers with
          | some e => .raised e
          | none => .returned
      some ({ s with outcome := some out }.setThr t ts.advance)
    | .dropEpi :: _ => some (s.setThr t { ts.advance with epi := [] })
    | .setEpi ms :: _ => some (s.setThr t { ts.advance with epi := ms.map Instr.killIfExc })

def init (net : Net) : NState :=
  { mbs := net.mbs.map fun sp => { subs := sp.drive.map fun _ => {} },
    thr := net.threads.map fun th => { prog := th.body, epi := th.epi } }

inductive Reachable (net : Net) : NState → Prop
  | init : Reachable net (init net)
  | step {s s' : NState} {t : Nat} : Reachable net s → step net s t = some s' → Reachable net s'

/-- run a schedule (strict: `none` if a scheduled thread is not enabled) -/
def run? (net : Net) (s : NState) : List Nat → Option NState
  | [] => some s
  | t :: ts =>
    match step net s t with
    | some s' => run? net s' ts
    | none => none

def NState.enabled (net : Net) (s : NState) : List Nat :=
  (List.range s.thr.length).filter fun t => (step net s t).isSome

/-- no thread can move -/
def NState.terminal (net : Net) (s : NState) : Bool := (s.enabled net).isEmpty

/-- every thread has ended -/
def NState.allEnded (s : NState) : Bool := s.thr.all TSt.ended

end Strax.Net
