import StraxModel.Model.Basic
/-
  Model of `strax.chunk.split_array` (numba loop), line by line.

      latest_end_seen = -1 ; splittable_i = 0 ; i_first_beyond = -1
      for i, d in enumerate(data):
          if d.time >= latest_end_seen: splittable_i = i
          if d.time >= t: i_first_beyond = i; break
          latest_end_seen = max(latest_end_seen, endtime(d))
          if latest_end_seen > t: break
      else:
          if latest_end_seen <= t: return data, data[:0], t
      if splittable_i != i_first_beyond or latest_end_seen > t:
          if not allow_early_split: raise CannotSplit
          t = min(data[splittable_i].time, t)
      return data[:splittable_i], data[splittable_i:], t
-/
namespace Strax

/-- Result of the scanning loop. `beyond = none` plays the role of `i_first_beyond = -1`;
`broke` says whether the loop ended through `break` (so the `else` clause is skipped). -/
structure ScanRes where
  splitI : Nat
  beyond : Option Nat
  latest : Int
  broke  : Bool
deriving Repr, DecidableEq

def scan (t : Int) : List Row → (i : Nat) → (latest : Int) → (splitI : Nat) → ScanRes
  | [], _, latest, splitI => ⟨splitI, none, latest, false⟩
  | d :: rest, i, latest, splitI =>
    let splitI := if d.time ≥ latest then i else splitI
    if d.time ≥ t then ⟨splitI, some i, latest, true⟩
    else
      let latest := max latest d.endt
      if latest > t then ⟨splitI, none, latest, true⟩
      else scan t rest (i+1) latest splitI

/-- `split_array(data, t, allow_early_split)`; `ok (left, right, t')` or `CannotSplit`. -/
def splitArray (data : List Row) (t : Int) (early : Bool) : Except Err (List Row × List Row × Int) :=
  match data with
  | [] => .ok ([], [], t)
  | d0 :: _ =>
    if d0.time ≥ t then .ok ([], data, t)
    else
      let s := scan t data 0 (-1) 0
      if !s.broke && s.latest ≤ t then .ok (data, [], t)
      else if (s.beyond != some s.splitI) || s.latest > t then
        if !early then .error .cannotSplit
        else
          -- data[splittable_i] always exists here (splitI < length); `none` branch unreachable
          match data[s.splitI]? with
          | some r => .ok (data.take s.splitI, data.drop s.splitI, min r.time t)
          | none => .error .other
      else .ok (data.take s.splitI, data.drop s.splitI, t)

end Strax
