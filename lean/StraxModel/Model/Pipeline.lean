import StraxModel.Model.Chunk
/-
  Theory T3 "Stream" (property C01): an abstract composition theory over chunk streams.

  A pipeline run of strax is, per data type, a *stream* (`List Chunk`).  Between a producer and each
  consumer sits a **transport** (mailbox, post office, futures resolved in order, save → rechunk →
  load); in front of a plugin's computation sits an **aligner** (`Plugin.iter`: the independent
  partitions of the dependencies are cut into calls with one common time range); the computation
  itself is a **kernel** (`do_compute` call by call, or a state machine over the calls).  C01 says
  that the rows that come out are those of the whole-run computation, whatever partitions and
  transports are in play.  This file defines

    * `rows`, `span`, the decidable laws of chunking `lawAbidingB` (DESIGN §6 notation),
    * `structure Transport` / `structure Aligner` — a function together with the proofs that it
      preserves content, laws and range (these proofs are the theorems of C05 / C07 / C03 / C08),
    * `structure Kernel` and `ChunkHom` — the chunked semantics of a plugin kind applied to ANY
      aligned law-abiding input partition gives law-abiding outputs whose rows are the whole-run
      computation of the rows of the inputs,
    * the plugin graph as a list of nodes in topological order, `exec g plan` by recursion on that
      order, and `whole g`,
    * the concrete chunked semantics of the plugin kinds (row-wise / filter, same-kind merge,
      multi-output, loop over things in bases, down-chunking, exhaust),
    * the whole-run semantics of the harness vocabulary of checks/props/c01.py (`Vocab`), which the
      driver op `c01.whole` evaluates.

  Core Lean only (the driver links this file).
-/
namespace Strax.Pipeline
open Strax

/-! ## 1. streams and the laws of chunking -/

/-- all rows of a stream, in order -/
def rows (cs : List Chunk) : List Row := cs.flatMap (·.rows)

/-- `start ≤ time < endt ≤ stop` -/
def rowInB (a b : Int) (r : Row) : Bool := decide (a ≤ r.time) && decide (r.time < r.endt) && decide (r.endt ≤ b)

/-- one chunk: `start ≤ stop`, every row of positive duration wholly inside, rows sorted by time -/
def chunkOKB (c : Chunk) : Bool :=
  decide (c.start ≤ c.stop) && c.rows.all (rowInB c.start c.stop) && sortedByTimeB c.rows

def adjacentB : List Chunk → Bool
  | a :: b :: rest => decide (a.stop = b.start) && adjacentB (b :: rest)
  | _ => true

/-- The laws of chunking (DESIGN §6): consecutive chunks adjacent, `start ≤ stop`, every row
`start ≤ time < endt ≤ stop`, rows sorted by time.  Stated chunk-locally: for adjacent chunks
with rows inside, sortedness of every chunk is sortedness of the whole stream
(`Lemmas/Pipeline.lean: lawAbiding_iff_global`). -/
def lawAbidingB (cs : List Chunk) : Bool := cs.all chunkOKB && adjacentB cs

def LawAbiding (cs : List Chunk) : Prop := lawAbidingB cs = true
instance (cs : List Chunk) : Decidable (LawAbiding cs) := by unfold LawAbiding; infer_instance

/-- the laws exactly as worded in DESIGN §6 (global sortedness) -/
def lawAbidingGlobalB (cs : List Chunk) : Bool :=
  cs.all (fun c => decide (c.start ≤ c.stop) && c.rows.all (rowInB c.start c.stop)) && adjacentB cs &&
    sortedByTimeB (rows cs)

/-- where a stream ends if it starts with a chunk ending at `d` -/
def lastStop : Int → List Chunk → Int
  | d, [] => d
  | _, c :: cs => lastStop c.stop cs

/-- the time range a stream covers -/
def span : List Chunk → Option (Int × Int)
  | [] => none
  | c :: cs => some (c.start, lastStop c.stop cs)

/-- chunk boundaries of a stream -/
def bounds (cs : List Chunk) : List (Int × Int) := cs.map fun c => (c.start, c.stop)

/-! ## 2. transports, aligners, kernels -/

/-- A transport: whatever carries a stream from its producer to one consumer. -/
structure Transport where
  run : List Chunk → Except Err (List Chunk)
  content : ∀ {inp out}, LawAbiding inp → run inp = .ok out → rows out = rows inp
  law : ∀ {inp out}, LawAbiding inp → run inp = .ok out → LawAbiding out
  range : ∀ {inp out}, LawAbiding inp → run inp = .ok out → span out = span inp

/-- totality of a transport on the law-abiding inputs that satisfy `P`, with `Q` guaranteed of the output (`P`
is the decidable domain of the layer theorem behind the transport: e.g. `plainStreamB` for the rechunker) -/
def Transport.TotalOn (P Q : List Chunk → Prop) (t : Transport) : Prop :=
  ∀ inp, LawAbiding inp → P inp → ∃ out, t.run inp = .ok out ∧ Q out

/-- unconditional totality (holds of `ident`, `concat`; NOT of the guarded transports) -/
def Transport.Total (t : Transport) : Prop := ∀ inp, LawAbiding inp → ∃ out, t.run inp = .ok out

/-- the streams of the dependencies of one plugin, all covering the run `R` -/
def StreamsOK (R : Int × Int) (ins : List (List Chunk)) : Prop :=
  ∀ s ∈ ins, LawAbiding s ∧ span s = some R

/-- an aligned input partition: law-abiding streams over `R` with one common list of boundaries -/
def Aligned (R : Int × Int) (ins : List (List Chunk)) : Prop :=
  StreamsOK R ins ∧ ∀ s ∈ ins, ∀ t ∈ ins, bounds s = bounds t

def sameBoundsB : List (List Chunk) → Bool
  | [] => true
  | s :: rest => rest.all fun t => bounds t == bounds s

def alignedB (R : Int × Int) (ins : List (List Chunk)) : Bool :=
  ins.all (fun s => lawAbidingB s && (span s == some R)) && sameBoundsB ins

/-- An aligner: `Plugin.iter`'s buffering and trimming, seen as a function from the independent
partitions of the dependencies to an aligned partition of the same rows. -/
structure Aligner where
  run : List (List Chunk) → Except Err (List (List Chunk))
  spec : ∀ {R ins out}, ins ≠ [] → StreamsOK R ins → run ins = .ok out →
    Aligned R out ∧ out.map rows = ins.map rows

/-- A plugin kind: its chunked semantics on an aligned partition (`chunked`: one stream per
dependency in, one stream per output out) and its whole-run meaning on unchunked rows. -/
structure Kernel where
  nIn : Nat
  nOut : Nat
  chunked : List (List Chunk) → Except Err (List (List Chunk))
  whole : List (List Row) → List (List Row)

/-- **Chunk homomorphism**: on ANY aligned law-abiding input partition the chunked semantics
yields law-abiding outputs over the same run whose rows are the whole-run computation. -/
def ChunkHom (k : Kernel) : Prop :=
  ∀ (R : Int × Int) (ins outs : List (List Chunk)), ins.length = k.nIn → Aligned R ins →
    k.chunked ins = .ok outs →
    outs.length = k.nOut ∧ StreamsOK R outs ∧ outs.map rows = k.whole (ins.map rows)

/-! ## 3. plugin graphs, plans, `exec` and `whole` -/

/-- `for x in xs: ys.append(f x)` where `f` may raise -/
def mapE {α β : Type} (f : α → Except Err β) : List α → Except Err (List β)
  | [] => .ok []
  | a :: as =>
    match f a with
    | .error e => .error e
    | .ok b =>
      match mapE f as with
      | .error e => .error e
      | .ok bs => .ok (b :: bs)

def lookup {β : Type} (d : String) : List (String × β) → Option β
  | [] => none
  | (k, v) :: rest => if k = d then some v else lookup d rest

/-- a computing node of the plugin graph (sources are not nodes: they are the initial environment) -/
structure Node where
  name : String
  deps : List String
  provides : List String
  aligner : Aligner
  kernel : Kernel

/-- the graph: nodes in topological order -/
abbrev Graph := List Node

/-- data type ↦ stream -/
abbrev Env := List (String × List Chunk)
/-- data type ↦ whole-run rows -/
abbrev WEnv := List (String × List Row)

/-- An execution plan: per edge (consumer, data type) a transport; and what storage already holds
(per stored data type the stream its loader delivers). -/
structure Plan where
  edge : String → String → Transport
  stored : List (String × List Chunk)

def wenvOf (env : Env) : WEnv := env.map fun p => (p.1, rows p.2)

/-- the chunked semantics of a node on the (transported, not yet aligned) streams of its dependencies -/
def Node.step (n : Node) (ins : List (List Chunk)) : Except Err (List (List Chunk)) :=
  match n.aligner.run ins with
  | .error e => .error e
  | .ok al => n.kernel.chunked al

/-- **Totality of one node on typed inputs.**  `P d s` is the (decidable) stream type of data type `d`.  For every
assignment `σ` of law-abiding streams over `R` of the right types to the dependencies, the edge transports
succeed, the node (aligner, then kernel) succeeds on what they deliver, and the outputs have their types.
This is the shape in which the layer theorems give totality: C07 on `plainStreamB`, C08 on `iterGuardB` +
`passesSufficeB`, … — NOT for all law-abiding inputs (D9, D16, `Chunk.merge` of unequal row counts). -/
def NodeTotalOn (edge : String → Transport) (R : Int × Int) (P : String → List Chunk → Prop) (n : Node) : Prop :=
  ∀ σ : String → List Chunk, (∀ d ∈ n.deps, LawAbiding (σ d) ∧ span (σ d) = some R ∧ P d (σ d)) →
    ∃ ins outs, mapE (fun d => (edge d).run (σ d)) n.deps = .ok ins ∧ n.step ins = .ok outs ∧
      outs.length = n.provides.length ∧ ∀ p ∈ n.provides.zip outs, P p.1 p.2

/-- a stored output is taken from storage, whatever the plugin computed for it -/
def override (stored : List (String × List Chunk)) : List String → List (List Chunk) → List (List Chunk)
  | d :: ds, o :: os =>
    (match lookup d stored with
     | some s => s
     | none => o) :: override stored ds os
  | _, _ => []

def fetchDep (plan : Plan) (consumer : String) (env : Env) (d : String) : Except Err (List Chunk) :=
  match lookup d env with
  | none => .error .keyError
  | some s => (plan.edge consumer d).run s

def execNode (plan : Plan) (n : Node) (env : Env) : Except Err Env :=
  match mapE (fetchDep plan n.name env) n.deps with
  | .error e => .error e
  | .ok ins =>
    match n.step ins with
    | .error e => .error e
    | .ok outs =>
      if outs.length = n.provides.length then
        .ok (env ++ n.provides.zip (override plan.stored n.provides outs))
      else .error .other

/-- run the graph in its (topological) order, extending the environment of streams -/
def exec (plan : Plan) : Graph → Env → Except Err Env
  | [], env => .ok env
  | n :: g, env =>
    match execNode plan n env with
    | .error e => .error e
    | .ok env' => exec plan g env'

def lookupW (w : WEnv) (d : String) : Except Err (List Row) :=
  match lookup d w with
  | none => .error .keyError
  | some r => .ok r

def wholeNode (n : Node) (w : WEnv) : Except Err (List (List Row)) :=
  match mapE (lookupW w) n.deps with
  | .error e => .error e
  | .ok ins =>
    if (n.kernel.whole ins).length = n.provides.length then .ok (n.kernel.whole ins)
    else .error .other      -- a kernel whose whole-run meaning has the wrong number of outputs

/-- every plugin's computation applied to the whole, unchunked run, in dependency order -/
def whole : Graph → WEnv → Except Err WEnv
  | [], w => .ok w
  | n :: g, w =>
    match wholeNode n w with
    | .error e => .error e
    | .ok outs => whole g (w ++ n.provides.zip outs)

/-- what storage holds for the outputs `ds` is law-abiding, covers the run, and has the rows `wouts` -/
def StoredAt (stored : List (String × List Chunk)) (R : Int × Int) :
    List String → List (List Row) → Prop
  | d :: ds, r :: rs =>
    (∀ s, lookup d stored = some s → LawAbiding s ∧ span s = some R ∧ rows s = r) ∧ StoredAt stored R ds rs
  | _, _ => True

/-- storage is consistent with the whole-run computation of the graph (decidable in principle:
`storedOKB`); discharged by an earlier run of the same graph, see `Props/C01: stored_of_earlier_run` -/
def StoredOK (stored : List (String × List Chunk)) (R : Int × Int) : Graph → WEnv → Prop
  | [], _ => True
  | n :: g, w =>
    match wholeNode n w with
    | .error _ => True
    | .ok outs => StoredAt stored R n.provides outs ∧ StoredOK stored R g (w ++ n.provides.zip outs)

def storedAtB (stored : List (String × List Chunk)) (R : Int × Int) : List String → List (List Row) → Bool
  | d :: ds, r :: rs =>
    (match lookup d stored with
     | none => true
     | some s => lawAbidingB s && (span s == some R) && (rows s == r)) && storedAtB stored R ds rs
  | _, _ => true

def storedOKB (stored : List (String × List Chunk)) (R : Int × Int) : Graph → WEnv → Bool
  | [], _ => true
  | n :: g, w =>
    match wholeNode n w with
    | .error _ => true
    | .ok outs => storedAtB stored R n.provides outs && storedOKB stored R g (w ++ n.provides.zip outs)

/-- the sources: law-abiding streams that all cover the run `R` -/
def EnvOK (R : Int × Int) (env : Env) : Prop := ∀ p ∈ env, LawAbiding p.2 ∧ span p.2 = some R

def envOKB (R : Int × Int) (env : Env) : Bool := env.all fun p => lawAbidingB p.2 && (span p.2 == some R)

/-- topological order: every dependency is a source or provided by an earlier node, every node has a
dependency, no data type is provided twice -/
def topoOrderedB : List String → Graph → Bool
  | _, [] => true
  | known, n :: g =>
    !n.deps.isEmpty && n.deps.all (known.contains ·) && n.provides.all (fun d => !known.contains d) &&
      n.provides.Nodup && (n.kernel.nIn == n.deps.length) && (n.kernel.nOut == n.provides.length) &&
      topoOrderedB (known ++ n.provides) g

def TopoOrdered (known : List String) (g : Graph) : Prop := topoOrderedB known g = true
instance (known : List String) (g : Graph) : Decidable (TopoOrdered known g) := by
  unfold TopoOrdered; infer_instance

/-! ## 4. chunked semantics of the plugin kinds -/

def setRows (out : String) (c : Chunk) (rs : List Row) : Chunk := { c with rows := rs, dataType := out }

/-- one dependency, rows computed chunk by chunk -/
def perChunk (f : List Row → List Row) (out : String) (s : List Chunk) : List Chunk :=
  s.map fun c => setRows out c (f c.rows)

/-- row-wise and filtering plugins: `g r = some r'` emits `r'` for `r`, `none` drops it -/
def mapKernel (g : Row → Option Row) (out : String) : Kernel where
  nIn := 1
  nOut := 1
  chunked
    | [s] => .ok [perChunk (List.filterMap g) out s]
    | _ => .error .other
  whole
    | [r] => [r.filterMap g]
    | _ => []

/-- the output row keeps the interval of the input row -/
def IntervalPreserving (g : Row → Option Row) : Prop :=
  ∀ r r', g r = some r' → r'.time = r.time ∧ r'.endt = r.endt

/-- `Chunk.merge` of two same-kind inputs followed by a row-wise computation `h` -/
def zipChunks (h : Row → Row → Row) (out : String) : List Chunk → List Chunk → Except Err (List Chunk)
  | [], [] => .ok []
  | a :: as, b :: bs =>
    if a.rows.length = b.rows.length ∧ a.start = b.start ∧ a.stop = b.stop then
      match zipChunks h out as bs with
      | .error e => .error e
      | .ok r => .ok (setRows out a (List.zipWith h a.rows b.rows) :: r)
    else .error .valueError      -- "Cannot merge chunks with different number of items / time ranges"
  | _, _ => .error .valueError

def mergeKernel (h : Row → Row → Row) (out : String) : Kernel where
  nIn := 2
  nOut := 1
  chunked
    | [a, b] =>
      match zipChunks h out a b with
      | .error e => .error e
      | .ok r => .ok [r]
    | _ => .error .other
  whole
    | [ra, rb] => [List.zipWith h ra rb]
    | _ => []

/-- the merged row keeps the interval of the first input's row -/
def KeepsFirstInterval (h : Row → Row → Row) : Prop :=
  ∀ x y, (h x y).time = x.time ∧ (h x y).endt = x.endt

/-- multi-output: two kernels on the same aligned inputs, outputs side by side -/
def pairKernel (k1 k2 : Kernel) : Kernel where
  nIn := k1.nIn
  nOut := k1.nOut + k2.nOut
  chunked ins :=
    match k1.chunked ins with
    | .error e => .error e
    | .ok o1 =>
      match k2.chunked ins with
      | .error e => .error e
      | .ok o2 => .ok (o1 ++ o2)
  whole ins := k1.whole ins ++ k2.whole ins

/-- `fully_contained` selection of a loop plugin (quadratic definition; `split_by_containment`
computes it with two pointers — C17 `split_by_containment_spec`) -/
def containedIn (b t : Row) : Bool := decide (b.time ≤ t.time) && decide (t.endt ≤ b.endt)

def loopRows (F : Row → List Row → Row) (bases things : List Row) : List Row :=
  bases.map fun b => F b (things.filter (containedIn b))

def loopChunks (F : Row → List Row → Row) (out : String) : List Chunk → List Chunk → Except Err (List Chunk)
  | [], [] => .ok []
  | a :: as, b :: bs =>
    match loopChunks F out as bs with
    | .error e => .error e
    | .ok r => .ok (setRows out a (loopRows F a.rows b.rows) :: r)
  | _, _ => .error .valueError

/-- loop over the base rows of the first dependency with the things of the second -/
def loopKernel (F : Row → List Row → Row) (out : String) : Kernel where
  nIn := 2
  nOut := 1
  chunked
    | [a, b] =>
      match loopChunks F out a b with
      | .error e => .error e
      | .ok r => .ok [r]
    | _ => .error .other
  whole
    | [ra, rb] => [loopRows F ra rb]
    | _ => []

def KeepsBaseInterval (F : Row → List Row → Row) : Prop :=
  ∀ b ts, (F b ts).time = b.time ∧ (F b ts).endt = b.endt

/-- down-chunking: every input chunk is turned into a list of output chunks -/
def downKernel (sub : Chunk → List Chunk) (g : Row → Option Row) : Kernel where
  nIn := 1
  nOut := 1
  chunked
    | [s] => .ok [s.flatMap sub]
    | _ => .error .other
  whole
    | [r] => [r.filterMap g]
    | _ => []

/-- what a down-chunking `compute` owes: its pieces tile the input chunk, obey the laws, and carry
the row-wise result -/
def SubOK (sub : Chunk → List Chunk) (g : Row → Option Row) : Prop :=
  ∀ c, chunkOKB c = true →
    LawAbiding (sub c) ∧ span (sub c) = some (c.start, c.stop) ∧ rows (sub c) = c.rows.filterMap g

/-- `ExhaustPlugin._fetch_chunk`: everything is concatenated before the first (only) call -/
def concatAll : List Chunk → List Chunk
  | [] => []
  | c :: cs =>
    [{ c with stop := lastStop c.stop cs, rows := rows (c :: cs),
              superrun := (match c.runId with           -- `Chunk.concatenate` rebuilds the default `{run_id: (start, end)}`
                | some rid => [⟨rid, c.start, lastStop c.stop cs⟩]
                | none => c.superrun) }]

/-- exhaust: a single call on the whole run; a second call is `RuntimeError` -/
def exhaustKernel (w : List Row → List Row) (out : String) : Kernel where
  nIn := 1
  nOut := 1
  chunked
    | [[c]] => .ok [[setRows out c (w c.rows)]]
    | [_] => .error .runtimeError
    | _ => .error .other
  whole
    | [r] => [w r]
    | _ => []

/-- a whole-run computation whose result obeys the laws inside any range that holds its input -/
def RangeLaw (w : List Row → List Row) : Prop :=
  ∀ (a b : Int) (rs : List Row), rs.all (rowInB a b) = true → sortedByTimeB rs = true →
    (w rs).all (rowInB a b) = true ∧ sortedByTimeB (w rs) = true

/-- a stateful plugin given by its model `ov` over the calls (overlap window: `Overlap.run`) -/
def streamKernel (ov : List Chunk → Except Err (List Chunk)) (w : List Row → List Row) : Kernel where
  nIn := 1
  nOut := 1
  chunked
    | [s] =>
      match ov s with
      | .error e => .error e
      | .ok o => .ok [o]
    | _ => .error .other
  whole
    | [r] => [w r]
    | _ => []

/-- the layer theorem such a model owes (C09 for the overlap window) -/
def StreamSpec (ov : List Chunk → Except Err (List Chunk)) (w : List Row → List Row) : Prop :=
  ∀ (R : Int × Int) (s out : List Chunk), LawAbiding s → span s = some R → ov s = .ok out →
    LawAbiding out ∧ span out = some R ∧ rows out = w (rows s)

/-! ## 5. aligners and transports that need no layer theorem -/

def idRun (s : List Chunk) : Except Err (List Chunk) := .ok s

/-- a plugin with a single dependency: every chunk is a call -/
def singleRun : List (List Chunk) → Except Err (List (List Chunk))
  | [s] => .ok [s]
  | _ => .error .other

/-- the exhaust plugin's input side -/
def exhaustRun : List (List Chunk) → Except Err (List (List Chunk))
  | [s] => .ok [concatAll s]
  | _ => .error .other

/-! ## 6. the harness vocabulary (checks/props/c01.py) and its whole-run semantics -/

namespace Vocab

def MOD : Nat := 1000003

inductive VKind where
  | map (c : Nat)
  | filter (m r : Nat)
  | merge
  | multi (c m r : Nat)
  | pairfirst (c : Nat)
  | loop
  | overlap (w : Nat)
  | overlap2 (wl wr : Nat)      -- asymmetric window: look-back `wl`, look-ahead `wr`
  | downchunk (c : Nat)
  | exhaust (c : Nat)
deriving Repr, DecidableEq

structure VNode where
  kind : VKind
  deps : List String
  outs : List String
deriving Repr, DecidableEq

def mapId (c : Nat) (r : Row) : Row := { r with id := (r.id * 31 + c) % MOD }
def keepB (m r : Nat) (x : Row) : Bool := x.id % m != r
def mergeId (x y : Row) : Row := { x with id := (x.id * 1009 + y.id * 17 + 5) % MOD }
def loopId (b : Row) (ts : List Row) : Row :=
  { b with id := (b.id * 31 + (ts.map (·.id)).sum + 7 * ts.length) % MOD }
def nearCount (w : Nat) (all : List Row) (r : Row) : Nat :=
  (all.filter fun x => decide ((x.time - r.time).natAbs ≤ w)).length
def overlapId (w : Nat) (all : List Row) (r : Row) : Row := { r with id := (r.id * 31 + nearCount w all r) % MOD }
/-- rows that start at most `wl` before and at most `wr` after `r` starts -/
def nearCount2 (wl wr : Nat) (all : List Row) (r : Row) : Nat :=
  (all.filter fun x => decide (r.time - wl ≤ x.time) && decide (x.time ≤ r.time + wr)).length
def overlapId2 (wl wr : Nat) (all : List Row) (r : Row) : Row :=
  { r with id := (r.id * 31 + nearCount2 wl wr all r) % MOD }
def exhaustId (c n : Nat) (r : Row) : Row := { r with id := (r.id * 31 + c + n) % MOD }

/-- whole-run meaning of one vocabulary kind: rows of the dependencies ↦ rows of the outputs -/
def wholeOf : VKind → List (List Row) → Option (List (List Row))
  | .map c, [x] => some [x.map (mapId c)]
  | .filter m r, [x] => some [x.filter (keepB m r)]
  | .merge, [x, y] => some [List.zipWith mergeId x y]
  | .multi c m r, [x] => some [x.map (mapId c), x.filter (keepB m r)]
  | .pairfirst c, [x, _] => some [x.map (mapId c)]
  | .loop, [x, y] => some [loopRows loopId x y]
  | .overlap w, [x] => some [x.map (overlapId w x)]
  | .overlap2 wl wr, [x] => some [x.map (overlapId2 wl wr x)]
  | .downchunk c, [x] => some [x.map (mapId c)]
  | .exhaust c, [x] => some [x.map (exhaustId c x.length)]
  | _, _ => none

/-- `whole` of a vocabulary graph (nodes in topological order) -/
def wholeV : List VNode → WEnv → Except Err WEnv
  | [], w => .ok w
  | n :: g, w =>
    match mapE (lookupW w) n.deps with
    | .error e => .error e
    | .ok ins =>
      match wholeOf n.kind ins with
      | none => .error .other
      | some outs =>
        if outs.length = n.outs.length then wholeV g (w ++ n.outs.zip outs) else .error .other

end Vocab

end Strax.Pipeline
