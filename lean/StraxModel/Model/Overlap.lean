import StraxModel.Model.Chunk
/-
  Model of `strax.OverlapWindowPlugin` (theory T5 "Overlap", property C09), following
  /repo/strax/plugins/overlap_window_plugin.py line by line:

      __init__:   cached_input = {} ; cached_results = {} if multi_output else None ; sent_until = 0

      do_compute(**kwargs):                                            -- `doCompute`
          if not len(kwargs): raise RuntimeError
          for data_kind, chunk in kwargs.items():                      -- `prepend`
              if len(cached_input):
                  kwargs[data_kind] = Chunk.concatenate([cached_input[data_kind], chunk])
          ends = [c.end for c in kwargs.values()]
          if not len(set(ends)) == 1: raise RuntimeError
          window = _get_window_size()          # `windowOf`: number -> (w, w); list / tuple of two -> ValueError
                                               # if an element is negative; anything else -> ValueError
          invalid_beyond = int(end - 2 * window[1] - 1)
          result = super().do_compute(**kwargs)                        -- `baseCompute`
          result[dt] = result[dt].split(sent_until, allow_early_split=False)[1]   -- `dropSent`
          if multi_output:
              prev_split = cache_beyond(result, invalid_beyond, cached_results)
              result[dt], cached_results[dt] = result[dt].split(prev_split, True)  -- `splitAll`
              if len(set(c.start for c in cached_results.values())) != 1: raise ValueError
              sent_until = prev_split
          else:
              result, cached_results = result.split(invalid_beyond, True)
              sent_until = cached_results.start
          cache_inputs_beyond = int(sent_until - 2 * window[0] - 1)
          cache_beyond(kwargs, cache_inputs_beyond, cached_input)
          return result

      cache_beyond(io, prev_split, cached):                            -- `cacheBeyond` (fuel 10)
          for try_counter in range(max_trials):                        --   `cachePass`
              for data, chunk in io.items():
                  cached[data] = chunk.split(prev_split, True)[1]
                  prev_split = cached[data].start
              if len(set(c.start for c in cached.values())) == 1: break
          else: raise ValueError
          return prev_split

      iter(iters):  yield from Plugin.iter(iters) ; yield cached_results   -- `runDicts`

  `Plugin.iter` for ONE dependency is modelled here directly (`iterLoop`): the input buffer is
  `concatenate([buffer, next chunk])`, it is split at its own end (`inputs[d], buffer =
  buffer.split(end, True)`), the re-trim loop sees a single end and leaves, `merge` of one chunk is
  the chunk.  For several dependencies the aligned calls are produced by `Strax.Align.iterModel`
  (property C08); `runCalls` takes them as given.

  Python dicts are insertion-ordered association lists.  A single-output plugin's `result` /
  `cached_results` is a one-entry dict keyed by the data type.
-/
namespace Strax.Overlap
open Strax

abbrev Dict (α : Type) := List (String × α)

def dictGet {α : Type} (d : Dict α) (k : String) : Option α :=
  match d with
  | [] => none
  | (k', v) :: rest => if k' == k then some v else dictGet rest k

/-- `d[k] = v`: an existing key keeps its position, a new key is appended -/
def dictSet {α : Type} (d : Dict α) (k : String) (v : α) : Dict α :=
  match d with
  | [] => [(k, v)]
  | (k', v') :: rest => if k' == k then (k', v) :: rest else (k', v') :: dictSet rest k v

/-- `len(set(xs)) == 1` -/
def uniqueB {α : Type} [BEq α] : List α → Bool
  | [] => false
  | a :: rest => rest.all (· == a)

/-- what the plugin class declares, plus its `compute` -/
structure Spec where
  wl : Int                                  -- `get_window_size()[0]`
  wr : Int                                  -- `get_window_size()[1]`
  multi : Bool                              -- `multi_output`
  provides : List (String × String)         -- (data type, data kind) of every output
  /-- `compute(**{kind: rows})`: for every provided data type the rows it returns (a data type
  that is missing from the answer is a `KeyError` in `_fix_output`) -/
  compute : Dict (List Row) → Dict (List Row)
  /-- `_get_window_size`: the declared window had a legal form (number, or list / tuple of two) -/
  declOK : Bool := true
  /-- `_get_window_size`: the two-element form rejects negative elements, the scalar form does not -/
  signCheck : Bool := true
  strict : Bool                             -- `save_when > SaveWhen.EXPLICIT`
  runId : String
  target : Nat

structure State where
  cachedInput : Dict Chunk
  cachedResults : Dict Chunk
  sentUntil : Int
deriving Repr, DecidableEq, Inhabited

def State.init : State := ⟨[], [], 0⟩

def maxTrials : Nat := 10

/-! ### `cache_beyond` -/

/-- one pass of the inner `for data, chunk in io.items()` -/
def cachePass (io : Dict Chunk) (prev : Int) (cached : Dict Chunk) : Except Err (Int × Dict Chunk) :=
  match io with
  | [] => .ok (prev, cached)
  | (k, c) :: rest =>
    match c.split prev true with
    | .error e => .error e
    | .ok (_, c2) => cachePass rest c2.start (dictSet cached k c2)

def cacheBeyond (fuel : Nat) (io : Dict Chunk) (prev : Int) (cached : Dict Chunk) :
    Except Err (Int × Dict Chunk) :=
  match fuel with
  | 0 => .error .valueError
  | n + 1 =>
    match cachePass io prev cached with
    | .error e => .error e
    | .ok (prev', cached') =>
      if uniqueB (cached'.map (·.2.start)) then .ok (prev', cached')
      else cacheBeyond n io prev' cached'

/-! ### the pieces of `do_compute` -/

/-- prepend the cached input to every argument -/
def prepend (cachedInput : Dict Chunk) (kwargs : Dict Chunk) : Except Err (Dict Chunk) :=
  match kwargs with
  | [] => .ok []
  | (k, c) :: rest =>
    if cachedInput.isEmpty then
      match prepend cachedInput rest with
      | .error e => .error e
      | .ok rest' => .ok ((k, c) :: rest')
    else
      match dictGet cachedInput k with
      | none => .error .keyError
      | some old =>
        match concatenate [old, c] false with
        | .error e => .error e
        | .ok c' =>
          match prepend cachedInput rest with
          | .error e => .error e
          | .ok rest' => .ok ((k, c') :: rest')

def minOf (d : Int) : List Int → Int
  | [] => d
  | x :: xs => minOf (min d x) xs
def maxOf (d : Int) : List Int → Int
  | [] => d
  | x :: xs => maxOf (max d x) xs

/-- `_fix_output` for one data type: wrap the rows in a chunk spanning the inputs' range, carry
over the inputs' run annotations (`superrun_transformation`, ordinary run) -/
def fixOutput (P : Spec) (start stop : Int) (subruns : Option Runs) (superrun : Runs)
    (res : Dict (List Row)) (p : String × String) : Except Err (String × Chunk) :=
  match dictGet res p.1 with
  | none => .error .keyError
  | some rows =>
    -- `self.chunk(...)`, then "Weird! … chunks from different run_id", then the two setters:
    -- every failure on this path is a `ValueError`
    if superrun.length > 1 then .error .valueError
    else
      match mkChunk p.1 p.2 (some P.runId) start stop rows subruns (some superrun) P.target with
      | .error e => .error e
      | .ok c => .ok (p.1, c)

def mapE {α β : Type} (f : α → Except Err β) : List α → Except Err (List β)
  | [] => .ok []
  | a :: as =>
    match f a with
    | .error e => .error e
    | .ok b =>
      match mapE f as with
      | .error e => .error e
      | .ok bs => .ok (b :: bs)

/-- `Plugin.do_compute`: range / run-annotation checks, `compute`, `_fix_output` -/
def baseCompute (P : Spec) (kwargs : Dict Chunk) : Except Err (Dict Chunk) :=
  match kwargs with
  | [] => .error .runtimeError
  | (_, c0) :: _ =>
    let ranges := kwargs.map (fun kv => (kv.2.start, kv.2.stop))
    let same := uniqueB ranges
    if !same && P.strict then .error .valueError
    else
      let start := if same then c0.start else minOf c0.start (kwargs.map (·.2.start))
      let stop := if same then c0.stop else maxOf c0.stop (kwargs.map (·.2.stop))
      if !uniqueB (kwargs.map (·.2.superrun)) then .error .valueError
      else if !uniqueB (kwargs.map (·.2.subruns)) then .error .valueError
      else
        let res := P.compute (kwargs.map (fun kv => (kv.1, kv.2.rows)))
        mapE (fixOutput P start stop c0.subruns c0.superrun res) P.provides

/-- `result[dt] = result[dt].split(t=sent_until, allow_early_split=False)[1]` -/
def dropSent (sentUntil : Int) (result : Dict Chunk) : Except Err (Dict Chunk) :=
  mapE (fun kv => match kv.2.split sentUntil false with
    | .error e => .error e
    | .ok (_, c2) => .ok (kv.1, c2)) result

/-- `result[dt], cached_results[dt] = result[dt].split(t=prev_split, allow_early_split=True)` -/
def splitAll (t : Int) (result : Dict Chunk) (cached : Dict Chunk) : Except Err (Dict Chunk × Dict Chunk) :=
  match result with
  | [] => .ok ([], cached)
  | (k, c) :: rest =>
    match c.split t true with
    | .error e => .error e
    | .ok (c1, c2) =>
      match splitAll t rest (dictSet cached k c2) with
      | .error e => .error e
      | .ok (outs, cached') => .ok ((k, c1) :: outs, cached')

/-- `OverlapWindowPlugin.do_compute` -/
def doCompute (P : Spec) (st : State) (kwargs : Dict Chunk) : Except Err (Dict Chunk × State) :=
  if kwargs.isEmpty then .error .runtimeError
  else
    match prepend st.cachedInput kwargs with
    | .error e => .error e
    | .ok kwargs =>
      if !uniqueB (kwargs.map (·.2.stop)) then .error .runtimeError
      else
        match kwargs with
        | [] => .error .runtimeError
        | (_, c0) :: _ =>
          -- `_get_window_size`: "Window size elements must be non-negative"
          if !P.declOK || (P.signCheck && (P.wl < 0 || P.wr < 0)) then .error .valueError
          else
          let invalidBeyond := c0.stop - 2 * P.wr - 1
          match baseCompute P kwargs with
          | .error e => .error e
          | .ok result =>
            match dropSent st.sentUntil result with
            | .error e => .error e
            | .ok result =>
              if P.multi then
                match cacheBeyond maxTrials result invalidBeyond st.cachedResults with
                | .error e => .error e
                | .ok (prevSplit, cachedRes) =>
                  match splitAll prevSplit result cachedRes with
                  | .error e => .error e
                  | .ok (out, cachedRes) =>
                    if !uniqueB (cachedRes.map (·.2.start)) then .error .valueError
                    else
                      match cacheBeyond maxTrials kwargs (prevSplit - 2 * P.wl - 1) st.cachedInput with
                      | .error e => .error e
                      | .ok (_, cachedIn) => .ok (out, ⟨cachedIn, cachedRes, prevSplit⟩)
              else
                match result with
                | [(k, r)] =>
                  match r.split invalidBeyond true with
                  | .error e => .error e
                  | .ok (out, cr) =>
                    match cacheBeyond maxTrials kwargs (cr.start - 2 * P.wl - 1) st.cachedInput with
                    | .error e => .error e
                    | .ok (_, cachedIn) => .ok ([(k, out)], ⟨cachedIn, [(k, cr)], cr.start⟩)
                | _ => .error .assertionError      -- `assert not self.multi_output` with ≠ 1 outputs

/-! ### driving it -/

/-- a sequence of already aligned calls (several dependencies: produced by `Plugin.iter`, C08),
followed by the final `yield self.cached_results` -/
def runCallsFrom (P : Spec) (st : State) : List (Dict Chunk) → Except Err (List (Dict Chunk) × State)
  | [] => .ok ([], st)
  | kw :: rest =>
    match doCompute P st kw with
    | .error e => .error e
    | .ok (out, st') =>
      match runCallsFrom P st' rest with
      | .error e => .error e
      | .ok (outs, st'') => .ok (out :: outs, st'')

def runCalls (P : Spec) (calls : List (Dict Chunk)) : Except Err (List (Dict Chunk)) :=
  match runCallsFrom P State.init calls with
  | .error e => .error e
  | .ok (outs, st) => .ok (outs ++ [st.cachedResults])

/-- `Plugin.iter` with one dependency of kind `kind`, from the point where `buf` is the freshly
fetched input buffer and `rest` are the chunks the iterator has not produced yet -/
def iterLoop (P : Spec) (kind : String) (st : State) (buf : Chunk) (rest : List Chunk) :
    Except Err (List (Dict Chunk) × State) :=
  match buf.split buf.stop true with
  | .error e => .error e
  | .ok (inp, buf') =>
    match doCompute P st [(kind, inp)] with
    | .error e => .error e
    | .ok (out, st') =>
      match rest with
      | [] =>
        -- IterDone: the iterator is exhausted; a saved plugin must not have rows left over
        if P.strict && !buf'.rows.isEmpty then .error .runtimeError else .ok ([out], st')
      | c :: rest' =>
        match concatenate [buf', c] false with
        | .error e => .error e
        | .ok buf'' =>
          match iterLoop P kind st' buf'' rest' with
          | .error e => .error e
          | .ok (outs, st'') => .ok (out :: outs, st'')

/-- the whole `OverlapWindowPlugin.iter` for one dependency: every yielded result dict, the last
one being the final flush -/
def runDicts (P : Spec) (kind : String) (chunks : List Chunk) : Except Err (List (Dict Chunk)) :=
  match chunks with
  | [] => .error .valueError          -- "Cannot work with empty input buffer"
  | c :: rest =>
    match iterLoop P kind State.init c rest with
    | .error e => .error e
    | .ok (outs, st) => .ok (outs ++ [st.cachedResults])

/-! ### single-output, single-dependency plugins: `runOverlap f (wl, wr) chunks` -/

def outType : String := "out"
def outKind : String := "outk"

/-- the plugin computing `f` on its only input kind -/
def spec1 (f : List Row → List Row) (w : Int × Int) (rid : String) : Spec where
  wl := w.1
  wr := w.2
  multi := false
  provides := [(outType, outKind)]
  compute := fun kw => match kw with
    | [(_, rows)] => [(outType, f rows)]
    | _ => []
  strict := true
  runId := rid
  target := 1000

/-- every yielded dict of a single-output plugin holds exactly one chunk -/
def single (d : Dict Chunk) : Except Err Chunk :=
  match d with
  | [(_, c)] => .ok c
  | _ => .error .other

/-- the output chunks of a single-output overlap-window plugin with computation `f` and window
`w = (look-back, look-ahead)` over the dependency's chunks -/
def runOverlap (f : List Row → List Row) (w : Int × Int) (chunks : List Chunk) : Except Err (List Chunk) :=
  match chunks with
  | [] => .error .valueError
  | c :: _ =>
    match c.runId with
    | none => .error .other             -- chunks spanning several runs: outside this model
    | some rid =>
      match runDicts (spec1 f w rid) c.kind chunks with
      | .error e => .error e
      | .ok ds => mapE single ds

/-- a multi-output plugin computing `fs` (data type, kind, computation) on its only input kind -/
def specN (fs : List (String × String × (List Row → List Row))) (w : Int × Int) (rid : String) : Spec where
  wl := w.1
  wr := w.2
  multi := true
  provides := fs.map (fun p => (p.1, p.2.1))
  compute := fun kw => match kw with
    | [(_, rows)] => fs.map (fun p => (p.1, p.2.2 rows))
    | _ => []
  strict := true
  runId := rid
  target := 1000

def runOverlapMulti (fs : List (String × String × (List Row → List Row))) (w : Int × Int)
    (chunks : List Chunk) : Except Err (List (Dict Chunk)) :=
  match chunks with
  | [] => .error .valueError
  | c :: _ =>
    match c.runId with
    | none => .error .other
    | some rid => runDicts (specN fs w rid) c.kind chunks


/-! ### `get_window_size()` as declared by the plugin, and `_get_window_size` -/

/-- what `get_window_size()` returns -/
inductive WindowDecl where
  | scalar (w : Int)            -- `int` / `float`: the documented primary form
  | pair (a b : Int)            -- tuple or list of two
  | other                       -- anything else (three elements, `np.int64`, …)
deriving Repr, DecidableEq

/-- `_get_window_size`: (look-back, look-ahead, legal form, negative elements rejected) -/
def windowOf : WindowDecl → Int × Int × Bool × Bool
  | .scalar w => (w, w, true, false)
  | .pair a b => (a, b, true, true)
  | .other => (0, 0, false, true)

/-! ### window-local computations used by the driver, the examples and the harness plugins -/

/-- `n` lies within the window of `r`: it ends after `r.time − wl` and starts before `r.endt + wr` -/
def near (wl wr : Int) (r n : Row) : Bool := decide (n.endt > r.time - wl) && decide (n.time < r.endt + wr)

/-- a per-row computation given by a kernel: the output row for `r` is `g r (rows near r)` -/
def perRow (wl wr : Int) (g : Row → List Row → Row) (rows : List Row) : List Row :=
  rows.map (fun r => g r (rows.filter (near wl wr r)))

def fIdent (rows : List Row) : List Row := rows

/-- number of rows within the window (the row itself included), encoded next to the id -/
def gCount (r : Row) (ctx : List Row) : Row := { r with id := r.id * 1000 + ctx.length }
def fCount (wl wr : Int) : List Row → List Row := perRow wl wr gCount

/-- sum of the ids of the rows within the window (the row itself included) -/
def gSum (r : Row) (ctx : List Row) : Row := { r with id := r.id * 1000 + (ctx.map (·.id)).foldl (· + ·) 0 }
def fSum (wl wr : Int) : List Row → List Row := perRow wl wr gSum

/-- gap grouping, the groups: maximal runs of consecutive rows in which every row starts at most
`gap` after its predecessor ends (right-to-left definition: a row joins the group of its successor
iff the successor starts within `gap` of its end) -/
def gapGroups (gap : Int) : List Row → List (List Row)
  | [] => []
  | r :: rest =>
    match gapGroups gap rest with
    | (n :: grp) :: gs => if n.time - r.endt ≤ gap then (r :: n :: grp) :: gs else [r] :: (n :: grp) :: gs
    | gs => [r] :: gs

/-- one output row per group: it spans the group (first start, latest end), id = 100 × (id of the
first member) + number of members -/
def summarize : List Row → Row
  | [] => ⟨0, 0, 0⟩
  | r :: rest => ⟨r.time, rest.foldl (fun m x => max m x.endt) r.endt, r.id * 100 + (rest.length + 1)⟩

/-- gap grouping: one output row per group of `gapGroups` -/
def fGap (gap : Int) (rows : List Row) : List Row := (gapGroups gap rows).map summarize

/-- pairing by id parity (a group-forming computation whose two variants interlock like bricks):
a row whose id has parity `par` absorbs its successor when that one starts within `gap` -/
def fPair (par : Nat) (gap : Int) : List Row → List Row
  | [] => []
  | [r] => [{ r with id := r.id * 100 + 1 }]
  | r :: n :: rest =>
    if r.id % 2 == par && decide (n.time - r.endt ≤ gap) then
      { r with endt := max r.endt n.endt, id := r.id * 100 + 2 } :: fPair par gap rest
    else { r with id := r.id * 100 + 1 } :: fPair par gap (n :: rest)

/-! ### hypotheses of the theorems (Props/C09.lean), as decidable predicates -/

/-- consecutive rows do not overlap (the docstring's "sorted by endtime … disjoint intervals") -/
def disjointB : List Row → Bool
  | a :: b :: rest => decide (a.endt ≤ b.time) && disjointB (b :: rest)
  | _ => true

/-- an ordinary chunk of data type `dt`, kind `kind`, run `rid`: no sub-run annotation, the
default super-run entry, a sane range, every row of positive duration inside the range -/
def plainB (dt kind rid : String) (c : Chunk) : Bool :=
  c.dataType == dt && c.kind == kind && c.runId == some rid && c.subruns.isNone &&
  c.superrun == [⟨rid, c.start, c.stop⟩] && decide (0 ≤ c.start) && decide (c.start ≤ c.stop) &&
  c.rows.all (fun r => decide (c.start ≤ r.time) && decide (r.time < r.endt) && decide (r.endt ≤ c.stop))

def adjacentB : List Chunk → Bool
  | a :: b :: rest => decide (a.stop = b.start) && adjacentB (b :: rest)
  | _ => true

/-- a law-abiding chunking of one run of disjoint rows: at least one chunk, all chunks ordinary
chunks of the same data type / kind / run, consecutive chunks adjacent, the rows of the whole run
pairwise disjoint in order (hence sorted by time) -/
def streamB (cs : List Chunk) : Bool :=
  match cs with
  | [] => false
  | c0 :: _ =>
    match c0.runId with
    | none => false
    | some rid => cs.all (plainB c0.dataType c0.kind rid) && adjacentB cs && disjointB (cs.flatMap (·.rows))

def Stream (cs : List Chunk) : Prop := streamB cs = true
instance (cs : List Chunk) : Decidable (Stream cs) := by unfold Stream; infer_instance

/-- all rows of a chunk list, in order -/
def allRows (cs : List Chunk) : List Row := cs.flatMap (·.rows)

end Strax.Overlap
