import StraxModel.Model.FS
/-
  C04, decision logic around the save protocol: which existing data counts as broken and may be replaced.

  Mirrors (strax/storage/common.py, strax/storage/files.py):
    StorageFrontend._can_overwrite       the `overwrite` policy ("never" / "if_broken" / "always") against the metadata
    StorageFrontend.find                 the broken-data check behind `check_broken` (its last block)
    DataDirectory._find(write=True)      "the directory exists and may not be overwritten" → DataExistsError
  The same three pieces are regenerated from the Python source by checks/props/c04.py:regen
  (Generated/StorePolicy.lean) and proved equal to these definitions in Props/C04.lean.
-/
namespace Strax.FS
open Strax

/-- `StorageFrontend.overwrite` -/
inductive Overwrite where
  | never | ifBroken | always
deriving DecidableEq, Repr, Inhabited

def Overwrite.name : Overwrite → String
  | .never => "never"
  | .ifBroken => "if_broken"
  | .always => "always"

/-- `StorageFrontend._can_overwrite(key)` given the metadata `get_metadata(key)` returned -/
def canOverwrite (p : Overwrite) (m : Meta) : Bool :=
  match p with
  | .always => true
  | .ifBroken => !m.good
  | .never => false

/-- the last block of `StorageFrontend.find(write=False, check_broken=True)`: metadata with an "exception", or without
"writing_ended" (unless incomplete data was asked for), is reported as `DataNotAvailable` -/
def brokenCheck (allowIncomplete : Bool) (m : Meta) : Except Err Unit :=
  if m.exc then .error .dataNotAvailable
  else if !m.ended && !allowIncomplete then .error .dataNotAvailable
  else .ok ()

/-- `DataDirectory._find(write=True)` raises `DataExistsError` -/
def writeRefused (dirExists : Bool) (p : Overwrite) (m : Meta) : Bool := dirExists && !canOverwrite p m

end Strax.FS
