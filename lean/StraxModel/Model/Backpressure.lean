import StraxModel.Model.Mailbox
/-
  T6 (net level, C13) — a CHAIN of mailboxes wired the way `ThreadedMailboxProcessor.__init__` wires a linear
  plugin graph  `source -> p1 -> … -> p(n-1) -> target`, every mailbox possibly with savers:

      node 0 (source) --mb 0--> node 1 --mb 1--> … --mb (n-1)--> node n (main, the consumer of get_iter)

  * one mailbox per data type (`MailboxDict.__missing__`), all `lazy` or all eager; after wiring the processor
    overwrites `max_messages` on EVERY mailbox (`for d, m in self.mailboxes.items(): m.max_messages = …`, with the
    plugin's own `max_messages` if it has one) — so a lazy mailbox inside a pipeline has a finite capacity too;
  * node j (0 < j < n) is the thread `build:<d>` running `Mailbox._send_from(p.iter(iters = {dep: subscribe()}))`:
    it is subscriber 0 (driving) of mailbox j-1 and the only sender of mailbox j;
  * savers are further subscribers of a mailbox (`add_reader(saver.save_from, can_drive = not lazy)`); the consumer
    subscribes last in the real code — here the next stage is always subscriber 0 and the savers follow (the order of
    subscribers is not observable);
  * plugins are one-to-one on chunks (`Plugin.iter` with one dependency: fetch one chunk, compute, yield): what is
    modelled of a stage is only how many messages it holds.

  The mailboxes are the `MB` of Model/Mailbox.lean with its critical sections `gateStep`, `sendStep`, `readStep`
  (numbering always automatic: `send(msg)` without `msg_number`).  Granularity: one step = what a thread does
  between two yield points of checks/lib/sched.py (outermost lock acquire, Condition.wait, the harness yield point in
  the source's `compute`).  A reader's generator keeps the batch it collected (`to_yield` in `Mailbox._read`) and
  hands it out message by message WITHOUT touching the mailbox again — a stage therefore holds up to a whole
  mailbox-full of messages besides the mailbox itself (this is why the bound is 2·cap per mailbox and not cap + 1).

  WORKER POOL (`pool`, eager only in the real processor): every plugin stage submits its computation to an executor and
  sends the FUTURE (`Msg.fut id v`); a reader that takes a future out of its batch waits for its result before it hands
  it on (`msg.result()` in `Mailbox._read`).  A thread that holds a message whose result is not there yet sits in
  `Pc.send m` and cannot move; for the consumer this is the state "taken out of the mailbox, not yet handed over" — the
  reason why one more message than `B` can be under way with a pool.  Futures are resolved by `Tid.resolve id` at any
  time (over-approximation of the executor's workers).

  No failures here (no kill, no raising source): that is C06.  The error branches of the critical sections are
  kept (`Pc.dead`), Lemmas/Backpressure.lean proves they are unreachable.
-/
namespace Strax.Backpressure
open Strax Strax.Mailbox

/-- program counter of a pipeline thread -/
inductive Pc where
  | gate                 -- lazy only: at the fetch gate of its output mailbox (`with self._lock: if not self._can_fetch(): wait`)
  | read                 -- inside `next(iterable)`: source: about to compute; stage / main: at the lock of its input mailbox
  | send (m : Msg)       -- holds `m`: waits for its result if it is an unresolved future, then sends on / hands over
  | close                -- input exhausted: `close()` = `send(StopIteration)`, then `closed = True`
  | done
  | dead (e : Err)
deriving Repr, DecidableEq

structure Node where
  pc : Pc
  batch : List Msg       -- rest of `to_yield` of this thread's reader generator
deriving Repr, DecidableEq

/-- a saver: subscriber `sub ≥ 1` of mailbox `mb` -/
structure Side where
  mb : Nat
  sub : Nat
  done : Bool
deriving Repr, DecidableEq

structure Net where
  lazy : Bool
  mbs : List MB
  nodes : List Node      -- `mbs.length + 1` threads; node j sends to mailbox j and reads mailbox j-1 as subscriber 0
  sides : List Side
  pool : Bool            -- worker pool: stages send futures
  futDone : List Nat     -- futures whose result is set
  remaining : Nat        -- chunks the source will still produce
  emitted : Nat          -- ghost: advances of the source (`next()` calls that returned; the last one finds it exhausted)
  pulled : Nat           -- ghost: messages the consumer has been handed (the last one is the end marker)
deriving Repr, DecidableEq

inductive Tid where
  | node (j : Nat)
  | side (i : Nat)
  | resolve (id : Nat)   -- a worker of the pool sets the result of future `id`
deriving Repr, DecidableEq

/-- take the next message of the batch: a stage goes on to send it (or to close), `read` if the batch is used up -/
def Node.advance (nd : Node) : Node :=
  match nd.batch with
  | [] => { pc := .read, batch := [] }
  | .stop :: r => { pc := .close, batch := r }
  | m :: r => { pc := .send m, batch := r }

/-- where a sender continues after its message went in (or was dropped) -/
def afterPush (lazy : Bool) (j : Nat) (nd : Node) : Node :=
  if lazy then { nd with pc := .gate }
  else if j = 0 then { nd with pc := .read }
  else nd.advance

/-- where a sender continues once the gate is open -/
def afterGate (j : Nat) (nd : Node) : Node :=
  if j = 0 then { nd with pc := .read } else nd.advance

def Net.setNode (s : Net) (j : Nat) (nd : Node) : Net := { s with nodes := s.nodes.set j nd }
def Net.setMb (s : Net) (j : Nat) (mb : MB) : Net := { s with mbs := s.mbs.set j mb }

/-- a future whose result is not there yet -/
def unresolved (done : List Nat) : Msg → Bool
  | .fut id _ => !done.contains id
  | _ => false

def valueOf : Msg → Nat
  | .plain v => v
  | .fut _ v => v
  | .stop => 0

/-- what stage `j` sends for the input message `m`: with a worker pool the future of its own computation -/
def outMsg (pool : Bool) (nThreads j k : Nat) (m : Msg) : Msg :=
  if pool && decide (j ≠ 0) then .fut (j + nThreads * k) (valueOf m) else m

/-- the consumer takes one message out of its batch; a future without result is held until it is resolved -/
def Net.pull (s : Net) (j : Nat) (batch : List Msg) : Option Net :=
  match batch with
  | [] => none
  | .stop :: r => some { (s.setNode j { pc := .done, batch := r }) with pulled := s.pulled + 1 }
  | m :: r =>
    if unresolved s.futDone m then some (s.setNode j { pc := .send m, batch := r })
    else some { (s.setNode j { pc := .read, batch := r }) with pulled := s.pulled + 1 }

/-- one step of pipeline thread `j` -/
def stepNode (s : Net) (j : Nat) : Option Net :=
  match s.nodes[j]? with
  | none => none
  | some nd =>
    let n := s.mbs.length
    match nd.pc with
    | .gate =>
      match s.mbs[j]? with
      | none => none
      | some out =>
        match out.gateStep with
        | none => none
        | some (ok, mb) => some ((s.setMb j mb).setNode j (if ok then afterGate j nd else nd))
    | .read =>
      if j = 0 then
        -- the source: `compute` (one harness yield point inside), or StopIteration
        match s.remaining with
        | 0 => some { (s.setNode 0 { nd with pc := .close }) with emitted := s.emitted + 1 }
        | r + 1 => some { (s.setNode 0 { nd with pc := .send (.plain s.emitted) }) with remaining := r, emitted := s.emitted + 1 }
      else
        match nd.batch with
        | _ :: _ =>
          -- only the consumer can be here with something left in its batch
          if j = n then s.pull j nd.batch else some (s.setNode j nd.advance)
        | [] =>
          match s.mbs[j - 1]? with
          | none => none
          | some inp =>
            match inp.readStep 0 with
            | none => none
            | some (.waiting, mb) => some (s.setMb (j - 1) mb)
            | some (.killed, mb) => some ((s.setMb (j - 1) mb).setNode j { nd with pc := .dead .mailboxKilled })
            | some (.took msgs, mb) =>
              let s1 := s.setMb (j - 1) mb
              if j = n then s1.pull j msgs else some (s1.setNode j ({ nd with batch := msgs } : Node).advance)
    | .send m =>
      if unresolved s.futDone m then none          -- `Future.result()`: blocked until a worker has set the result
      else if j = n then
        -- the consumer is handed the result
        some { (s.setNode j { nd with pc := .read }) with pulled := s.pulled + 1 }
      else
      match s.mbs[j]? with
      | none => none
      | some out =>
        match out.sendStep none (outMsg s.pool (n + 1) j out.nSent m) with
        | none => none
        | some (.sent _, mb) => some ((s.setMb j mb).setNode j (afterPush s.lazy j nd))
        | some (.dropped, mb) => some ((s.setMb j mb).setNode j (afterPush s.lazy j nd))
        | some (.waiting _, mb) => some (s.setMb j mb)
        | some (.raised e, mb) => some ((s.setMb j mb).setNode j { nd with pc := .dead e })
    | .close =>
      match s.mbs[j]? with
      | none => none
      | some out =>
        match out.sendStep none .stop with
        | none => none
        | some (.sent _, mb) => some ((s.setMb j { mb with closed := true }).setNode j { nd with pc := .done })
        | some (.dropped, mb) => some ((s.setMb j { mb with closed := true }).setNode j { nd with pc := .done })
        | some (.waiting _, mb) => some (s.setMb j mb)
        | some (.raised e, mb) => some ((s.setMb j mb).setNode j { nd with pc := .dead e })
    | .done => none
    | .dead _ => none

/-- one step of saver `i`: one critical section of `_read`; what it took is written out without any lock -/
def stepSide (s : Net) (i : Nat) : Option Net :=
  match s.sides[i]? with
  | none => none
  | some sd =>
    if sd.done then none else
    match s.mbs[sd.mb]? with
    | none => none
    | some inp =>
      match inp.readStep sd.sub with
      | none => none
      | some (.waiting, mb) => some (s.setMb sd.mb mb)
      | some (.killed, mb) => some { (s.setMb sd.mb mb) with sides := s.sides.set i { sd with done := true } }
      | some (.took msgs, mb) =>
        some { (s.setMb sd.mb mb) with sides := s.sides.set i { sd with done := msgs.contains .stop } }

/-- a worker sets the result of a future -/
def stepResolve (s : Net) (id : Nat) : Option Net :=
  if s.pool && !s.futDone.contains id then some { s with futDone := id :: s.futDone } else none

def step (s : Net) : Tid → Option Net
  | .node j => stepNode s j
  | .side i => stepSide s i
  | .resolve id => stepResolve s id

/-! ### wiring -/

/-- what the processor is given: mode, the capacity of every mailbox of the chain (`max_messages`, or the plugin's
own `max_messages`), the number of savers on every mailbox -/
structure Wiring where
  lazy : Bool
  caps : List Nat
  savers : List Nat
  pool : Bool := false
deriving Repr, DecidableEq

def Wiring.saversAt (w : Wiring) (j : Nat) : Nat := (w.savers[j]?).getD 0

/-- the mailbox of data type j as the processor leaves it: finite capacity also when lazy; subscriber 0 (the next
stage, or the consumer) drives, savers drive only in eager mode (`can_drive = not lazy`) -/
def mkMb (lazy : Bool) (cap nSavers : Nat) : MB :=
  { cap := some cap, lazy := lazy, gateRule := .hasMsg, heap := [],
    subs := { next := 0, waitingFor := none, canDrive := true, flag := none } ::
            List.replicate nSavers { next := 0, waitingFor := none, canDrive := !lazy, flag := none },
    nSent := 0, closed := false, killed := false, forceKilled := false, writeFlag := none, fetchFlag := none }

def sidesOf (j nSavers : Nat) : List Side := (List.range nSavers).map fun k => { mb := j, sub := k + 1, done := false }

def mkSides (savers : List Nat) (j : Nat) : List Side :=
  match savers with
  | [] => []
  | k :: r => sidesOf j k ++ mkSides r (j + 1)

/-- `ThreadedMailboxProcessor.__init__` + `iter()` for a chain and a source of `n` chunks -/
def wire (w : Wiring) (n : Nat) : Net :=
  let m := w.caps.length
  { lazy := w.lazy,
    mbs := (List.range m).map fun j => mkMb w.lazy ((w.caps[j]?).getD 0) (w.saversAt j),
    nodes := (List.range (m + 1)).map fun j =>
      { pc := if j = m then .read else if w.lazy then .gate else .read, batch := [] },
    sides := mkSides (w.savers.take m) 0,
    pool := w.pool, futDone := [],
    remaining := n, emitted := 0, pulled := 0 }

inductive Reachable (w : Wiring) (n : Nat) : Net → Prop
  | init : Reachable w n (wire w n)
  | step {s s' : Net} {t : Tid} : Reachable w n s → step s t = some s' → Reachable w n s'

/-- the index of the consumer thread -/
def Net.main (s : Net) : Tid := .node s.mbs.length

/-- run a schedule (stops at the first thread that is not enabled) -/
def run (s : Net) : List Tid → Net
  | [] => s
  | t :: ts =>
    match step s t with
    | some s' => run s' ts
    | none => s

/-- strict variant -/
def run? (s : Net) : List Tid → Option Net
  | [] => some s
  | t :: ts =>
    match step s t with
    | some s' => run? s' ts
    | none => none

/-- the threads that may be enabled: pipeline threads, savers, and a worker for every future some thread waits for -/
def Net.threads (s : Net) : List Tid :=
  (List.range s.nodes.length).map .node ++ (List.range s.sides.length).map .side ++
    s.nodes.filterMap fun nd => match nd.pc with
      | .send (.fut id _) => some (.resolve id)
      | _ => none

def Net.enabled (s : Net) : List Tid := s.threads.filter fun t => (step s t).isSome

/-- QUIESCENCE with the consumer paused: no thread but the consumer can take a step — every other thread has
finished or is blocked inside `Condition.wait` (sender on a full mailbox, sender at the fetch gate waiting for
demand, reader waiting for a message that is not there). -/
def Net.quiescent (s : Net) : Bool := s.enabled.all fun t => t == s.main

/-- the bound: two mailbox-fulls per mailbox of the chain — `cap` messages buffered in the mailbox, `cap` more taken
out of it in one batch by its reader (the message being computed / waiting to be sent on is one of them) -/
def B (w : Wiring) : Nat := 2 * w.caps.sum

/-- with a worker pool: one more — the future the consumer's reader has taken and is waiting for -/
def Bpool (w : Wiring) : Nat := B w + 1

/-- lazy mode with only the next stage driving: one message is under way at any time -/
def Blazy : Nat := 1

/-! ### deterministic schedules for the driver (priority policies like checks/lib/sched.PriorityStrategy) -/

/-- priority of a thread: smaller runs first.  `up`: the thread furthest upstream first (savers right after the
sender of their mailbox), the consumer last.  `down`: the other way round, the consumer first.
`lag`: like `up` with all savers after every pipeline thread and after the consumer. -/
inductive Policy where
  | up
  | down
  | lag
deriving Repr, DecidableEq

def Policy.prio (p : Policy) (s : Net) : Tid → Nat
  | .node j =>
    if j = s.mbs.length then (if p = .down then 0 else if p = .lag then 2 * j else 1000000) else
    match p with
    | .up => 2 * j
    | .down => 2 * (s.mbs.length - j) + 2
    | .lag => 2 * j
  | .side i =>
    match s.sides[i]? with
    | none => 999999
    | some sd =>
      match p with
      | .up => 2 * sd.mb + 1
      | .down => 2 * (s.mbs.length - sd.mb) + 1
      | .lag => 2 * s.mbs.length + 1 + sd.mb
  | .resolve _ => 999998

def pickMin (f : Tid → Nat) : List Tid → Option Tid
  | [] => none
  | t :: r =>
    match pickMin f r with
    | none => some t
    | some u => if f t ≤ f u then some t else some u

/-- run under policy `p` until `stop` holds or nothing (allowed) is enabled or the fuel is used up;
`withMain = false` keeps the consumer paused.  Returns the state and whether it stopped for lack of enabled threads. -/
def runPolicy (p : Policy) (withMain : Bool) (stop : Net → Bool) : Nat → Net → Net × Bool
  | 0, s => (s, false)
  | fuel + 1, s =>
    if stop s then (s, false) else
    let en := s.enabled.filter fun t => withMain || !(t == s.main)
    match pickMin (p.prio s) en with
    | none => (s, true)
    | some t =>
      match step s t with
      | none => (s, true)
      | some s' => runPolicy p withMain stop fuel s'

end Strax.Backpressure
