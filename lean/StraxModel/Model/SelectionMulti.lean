import StraxModel.Model.Align
import StraxModel.Model.Selection
/-
  Property C10, several same-kind targets requested together: `get_iter` registers a temporary
  `MergeOnlyPlugin` depending on all of them; each stored target gets its own loader with the same
  time range and `Plugin.iter` (Model/Align.lean, property C08) aligns the streams.  The merge
  plugin is never saved (save policy NEVER → tolerant range check in `do_compute`).
-/
namespace Strax.Selection
open Strax

/-- rows of the chunk a `MergeOnlyPlugin` produces from one `compute` call: `Chunk.merge` takes
common fields (the time fields) from the last input and every other column from its owner -/
def mergedRows (c : Align.Call) : List Row :=
  match c.rows with
  | [] => []
  | first :: rest => zipRows first ((first :: rest).getLast (by simp))

/-- `get_array(run, (t₁, …, tₙ), …)` for several stored targets of one data kind: each has its own
loader with the same range; the temporary merge plugin aligns them with `Plugin.iter`
(save policy NEVER: tolerant range check). -/
def getArrayMulti (fields : List String) (targets : List (Align.Dep × List Chunk)) (a : TimeArgs)
    (s : Sel) : Except Err (List Row × List String) :=
  match targets with
  | [] => .error .other
  | (_, stored0) :: _ =>
    match toAbsolute stored0 a with
    | .error e => .error e
    | .ok r =>
      match mapE (fun (p : Align.Dep × List Chunk) => loader p.2 r) targets with
      | .error e => .error e
      | .ok lists =>
        match Align.iterModel (targets.map (·.1)) lists false with
        | .error e => .error e
        | .ok calls => collect fields s r (calls.map mergedRows)

theorem adjacentB_eq_align : ∀ cs : List Chunk, adjacentB cs = Align.adjacentB cs
  | [] => rfl
  | [_] => rfl
  | a :: b :: rest => by
    simp only [adjacentB, Align.adjacentB]
    rw [adjacentB_eq_align (b :: rest)]

/-- the law-abiding predicate of this theory is the one of theory T4 (Align) plus "every chunk plain" -/
theorem lawAbidingB_eq_align (cs : List Chunk) :
    lawAbidingB cs = (Align.lawAbidingB cs && cs.all plainB) := by
  have h : chunkOKB = Align.chunkOKB := rfl
  simp only [lawAbidingB, Align.lawAbidingB, adjacentB_eq_align, h]

end Strax.Selection
