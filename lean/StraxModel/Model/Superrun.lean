import StraxModel.Model.Rechunk
/-
  Model of superrun processing (property C14) for a linear plugin chain
  `source = level 0 → level 1 → … → level n`, every plugin row-wise with ONE dependency:

  * `strax/run_selection.py: define_run`      → `dedup`, `defineRun` (dict de-duplication, stable sort by run start)
  * `strax/storage/common.py: DataKey._run_id` → `superrunKey` (run name, H(sub_run_spec items sorted by id, each with its selection; combining))
  * `strax/context.py: get_components.check_cache` (superrun branch) → `descend`, `concatLoader`, `superGet`
  * `strax/plugins/plugin.py: Plugin.iter / do_compute / superrun_transformation` for one dependency
                                               → `iterStep`, `pluginIter`, `pluginRun`, `compute`
  * `strax/storage/common.py: Saver.save_from` (Rechunker with `is_superrun`) → `save`;
    `_read_and_format_chunk` → `reload` (JSON `sort_keys=True` → `sortById`)

  Chunk annotations, `split`, `concatenate`, `Rechunker`, `continuityCheck` are the ones of Model/Chunk.lean and
  Model/Rechunk.lean.  Everything mirrors the code as it is, including the corner that a chunk made at a subrun
  border starts at the END of the previous subrun (the empty remainder of the input buffer is concatenated in front
  of the next subrun's first chunk), which breaks `promised_continuity` when subruns are not adjacent in time.
-/
namespace Strax.Superrun
open Strax

/-! ### `define_run` -/

/-- `{run_id: "all" for run_id in data}`: a dict keeps the position of the first occurrence of a key -/
def dedup : List String → List String
  | [] => []
  | x :: xs => x :: (dedup xs).filter (· != x)

/-- `define_run(name, data=[run ids])`: look up every run's start in its run document, then
`sort_index = stable_argsort(starts)`.  A missing run document raises (`RunMetadataNotAvailable`). -/
def defineRun (docs : List (String × Int)) (data : List String) : Except Err (List String) := do
  let ks ← (dedup data).mapM fun rid =>
    match docs.lookup rid with
    | some s => pure (rid, s)
    | none => throw Err.other
  pure ((ks.mergeSort (fun a b => decide (a.2 ≤ b.2))).map (·.1))

/-- `if not name.startswith("_"): name = "_" + name` -/
def superName (name : String) : String := if name.startsWith "_" then name else "_" ++ name

/-- sorting a dict's items by key: `json.dumps(…, sort_keys=True)`, `hashablize` -/
def sortIds (spec : List String) : List String := spec.mergeSort (fun a b => decide (a ≤ b))

/-- what `run_metadata(superrun)["sub_run_spec"]` iterates over after `define_run`: the run document is written by
`DataDirectory.write_run_metadata` (the only frontend that can define runs) with `json.dumps(…)`.  `sortKeys` is
whether that call passes `sort_keys=True` — regenerated from the source on every run (`Generated/RunDoc.lean`).
With `sort_keys=True` (the code before fix D27) the order computed by `define_run` is replaced by the lexicographic
order of the run ids when the document is read back. -/
def runDocSpec (sortKeys : Bool) (spec : List String) : List String := if sortKeys then sortIds spec else spec

/-- `define_run` followed by reading the run document back -/
def definedSpec (sortKeys : Bool) (docs : List (String × Int)) (data : List String) : Except Err (List String) := do
  pure (runDocSpec sortKeys (← defineRun docs data))

/-! ### `DataKey._run_id` -/

/-- `run_id + "_" + deterministic_hash((subruns, combining))`, kept as the pair (run id, hash).  `H` stands for
the hash: any function into any type `κ` — the theorems that need it assume it injective (an explicit hypothesis,
never an axiom); the driver instantiates it with an injective printing. -/
abbrev Key (κ : Type) := String × κ

/-- the per-subrun selection of a `sub_run_spec`: run id ↦ `[start, end]` time window; a run that is not listed is
taken whole (`"all"`) -/
abbrev Sel := List (String × (Int × Int))

/-- the items of the `sub_run_spec` dict as `hashablize` sees them: sorted by run id, each with its selection -/
def tagged (sel : Sel) (spec : List String) : List (String × Option (Int × Int)) :=
  (sortIds spec).map fun r => (r, sel.lookup r)

def superrunKey {κ : Type} (H : List (String × Option (Int × Int)) → Bool → κ) (name : String) (spec : List String)
    (sel : Sel) (combining : Bool) : Key κ :=
  (name, H (tagged sel spec) combining)

/-! ### the plugin chain -/

/-- one plugin of the chain (index 0 is the source plugin) -/
structure Level where
  dataType : String
  /-- `allow_superrun` -/
  allow : Bool
  /-- `rechunk_on_save` -/
  rechunk : Bool
  /-- `chunk_target_size_mb`, in rows -/
  target : Nat
deriving Repr, DecidableEq, Inhabited

/-- one chunk produced by the source plugin: `self.chunk(start=…, end=…, data=rows)` -/
structure RawC where
  start : Int
  stop : Int
  rows : List Row
deriving Repr, DecidableEq, Inhabited

def KIND : String := "k"

/-- `Plugin.is_superrun` / `Chunk.is_superrun` / `Rechunker.is_superrun`: the run id starts with an underscore -/
def isSuperId (runId : String) : Bool := runId.startsWith "_"

/-- `do_compute` of a row-wise plugin on one merged input chunk followed by `superrun_transformation`.
`self.chunk(start, end, data)` builds a plain chunk of the plugin's run; then either the input's `superrun`
(= the subruns it was concatenated from) becomes the result's `subruns`, or — when the input already belongs to
the superrun — `subruns`/`superrun` are inherited. -/
def compute (lv : Level) (runId : String) (inp : Chunk) : Except Err Chunk :=
  if isSuperId runId && !(inp.superrun.any (·.id == runId)) then
    mkChunk lv.dataType KIND (some runId) inp.start inp.stop inp.rows (some inp.superrun) none lv.target
  else if inp.superrun.length > 1 then throw Err.valueError
  else mkChunk lv.dataType KIND (some runId) inp.start inp.stop inp.rows inp.subruns (some inp.superrun) lv.target

/-- one turn of the `for chunk_i in …` loop of `Plugin.iter` with a single dependency: fetch (concatenate the
input buffer with the next chunk), cut at the buffer's end with `allow_early_split=True`, compute. -/
def iterStep (lv : Level) (runId : String) (buf : Option Chunk) (c : Chunk) : Except Err (Chunk × Chunk) := do
  let b ← match buf with
    | none => pure c                              -- `concatenate([None, c])` is `c`
    | some k => concatenate [k, c] lv.allow
  let (inp, rest) ← b.split b.stop true
  let out ← compute lv runId inp
  pure (out, rest)

def pluginIter (lv : Level) (runId : String) : Option Chunk → List Chunk → Except Err (List Chunk)
  | buf, [] =>
    -- sources exhausted: "Plugin … terminated with leftover …" (every level here saves, `save_when > EXPLICIT`)
    match buf with
    | some k => if k.rows.isEmpty then pure [] else throw Err.runtimeError
    | none => pure []
  | buf, c :: cs => do
    let (o, r) ← iterStep lv runId buf c
    let os ← pluginIter lv runId (some r) cs
    pure (o :: os)

/-- `Plugin.iter` over a whole input stream ("Cannot work with empty input buffer" on an empty one) -/
def pluginRun (lv : Level) (runId : String) (cs : List Chunk) : Except Err (List Chunk) :=
  match cs with
  | [] => throw Err.valueError
  | _ => pluginIter lv runId none cs

/-- `Saver.save_from`: `Rechunker(rechunk=rechunk_on_save, run_id=md["run_id"])`, receive every chunk, flush -/
def save (argmin0 : Int) (lv : Level) (runId : String) (cs : List Chunk) : Except Err (List Chunk) :=
  if lv.rechunk then rechunkAll argmin0 ⟨true, isSuperId runId, none⟩ cs else pure cs

def sortById (rs : Runs) : Runs := rs.mergeSort (fun a b => decide (a.id ≤ b.id))

/-- `_read_and_format_chunk`: the chunk is rebuilt from its metadata entry (`start`, `end`, `run_id`, `subruns`;
the JSON was written with `sort_keys=True`) — `superrun` is not stored. -/
def reload (c : Chunk) : Except Err Chunk :=
  match c.runId with
  | none => throw Err.other                       -- `None.startswith`: never stored by the modelled paths
  | some rid =>
    if isSuperId rid && c.subruns.isNone then throw Err.valueError
    else mkChunk c.dataType c.kind (some rid) c.start c.stop c.rows (c.subruns.map sortById) none c.target

/-! ### `continuity_check`, line by line

`Model/Chunk.lean: contStep` identifies Python's `None` (value of `chunk.last_subrun` for a chunk that is not a
superrun chunk) with the initial `{"run_id": None}`.  The code does not: after a non-superrun chunk of the same
`run_id`, `last_subrun["run_id"]` is `None["run_id"]` → `TypeError`.  A superrun stream reaches that state through
a zero-duration chunk (its empty subrun span is popped by `split`, so the chunk loses its `subruns`). -/

structure ContState where
  lastEnd : Option Int := none
  lastRun : Option (Option String) := none
  /-- `none` = Python `None`; `some none` = `{"run_id": None}`; `some (some r)` = a subrun -/
  lastSubrun : Option (Option Run) := some none
deriving Repr

def contStepCore (s : ContState) (c : Chunk) : Except Err ContState := do
  let s := if s.lastRun != some c.runId then { s with lastEnd := none, lastSubrun := some none } else s
  let s ← if c.isSuperrun then
      match s.lastSubrun with
      | none => throw Err.typeError
      | some ls =>
        if (c.firstSubrun.map (·.id)) != (ls.map (·.id)) then pure { s with lastEnd := none }
        else pure { s with lastEnd := ls.map (·.stop) }
    else pure s
  match s.lastEnd with
  | some e => if c.promisedContinuity && c.start != e then throw Err.valueError
  | none => pure ()
  pure { lastEnd := some c.stop, lastRun := some c.runId,
         lastSubrun := if c.isSuperrun then some c.lastSubrun else none }

/-- `chunk.is_superrun` raises `AttributeError` on a chunk with sub-runs and `run_id = None` (`Chunk.isSuperrunBad`) -/
def contStep (s : ContState) (c : Chunk) : Except Err ContState :=
  if c.isSuperrunBad then .error .other else contStepCore s c

def continuityCheck (cs : List Chunk) : Except Err Unit :=
  (cs.foldlM contStep ({} : ContState)) *> pure ()

/-! ### worlds, ordinary runs, the concat loader -/

structure World where
  /-- initial value of `argmin` in `Rechunker.get_splits` (translated from the source) -/
  argmin0 : Int
  superName : String
  /-- `levels[0]` is the source plugin -/
  levels : List Level
  /-- what the source plugin produces for each ordinary run -/
  src : List (String × List RawC)

/-- data of ordinary run `rid` at level `j` as `make(rid, level j)` leaves it in storage and a loader yields it:
the source chunks pass through the plugins `1..j` in flight, level `j`'s saver (re)chunks them, the loader
rebuilds them. -/
def subrunStored (w : World) (rid : String) (j : Nat) : Except Err (List Chunk) :=
  match w.src.lookup rid, w.levels.take (j + 1) with
  | some raw, l0 :: ls => do
    let c0 ← raw.mapM fun c => mkChunk l0.dataType KIND (some rid) c.start c.stop c.rows none none l0.target
    if c0.isEmpty then throw Err.dataCorrupted     -- "No data returned!"
    else do
      let top ← ls.foldlM (fun cs lv => pluginRun lv rid cs) c0
      let saved ← save w.argmin0 ((l0 :: ls).getLast?.getD l0) rid top
      saved.mapM reload
  | _, _ => throw Err.other

/-- `StorageBackend.apply_time_range` on one loaded chunk: cut off what lies before the window (moving the cut
back to the closest admissible time) and what lies after it (keeping everything when a row straddles the end) -/
def trimStart (tr : Int × Int) (c : Chunk) : Except Err Chunk :=
  if c.start < tr.1 then c.split tr.1 true >>= fun p => pure p.2 else pure c

def trimEnd (tr : Int × Int) (c : Chunk) : Except Err Chunk :=
  if c.stop > tr.2 then
    match c.split tr.2 false with
    | .ok p => pure p.1
    | .error .cannotSplit => pure c
    | .error e => throw e
  else pure c

def applyTimeRange1 (tr : Int × Int) (c : Chunk) : Except Err Chunk := trimStart tr c >>= trimEnd tr

/-- a loader with `time_range`: chunks that do not overlap the window are skipped, the others are trimmed -/
def applyTimeRange (tr : Int × Int) : List Chunk → Except Err (List Chunk)
  | [] => pure []
  | c :: cs =>
    if decide (c.stop ≤ tr.1) || decide (tr.2 ≤ c.start) then applyTimeRange tr cs
    else do
      let c' ← applyTimeRange1 tr c
      let rest ← applyTimeRange tr cs
      pure (c' :: rest)

/-- the loader of one subrun as the concat loader sets it up: `time_range = sub_run_spec[subrun]` unless `"all"` -/
def subrunLoaded (w : World) (sel : Sel) (rid : String) (j : Nat) : Except Err (List Chunk) :=
  match sel.lookup rid with
  | none => subrunStored w rid j
  | some tr => subrunStored w rid j >>= applyTimeRange tr

/-- `for x in ldrs: yield from x()` with `ldrs` in `sub_run_spec` order -/
def concatLoader (w : World) (spec : List String) (sel : Sel) (j : Nat) : Except Err (List Chunk) := do
  let per ← spec.mapM fun rid => subrunLoaded w sel rid j
  pure per.flatten

/-! ### `get_components` / processing of a superrun -/

/-- stored superrun data: (key run id, data type) ↦ chunks as saved -/
abbrev Store (κ : Type) := List ((Key κ × String) × List Chunk)

/-- `check_cache` walking down from the target (`rev` = levels `n, n-1, …, 0`): a stored level is loaded, a level
that does not allow superruns (or any level when `combining`) is fed by the concat loader of the subruns, any
other level is computed from the level below.  Result: base stream and the levels to compute (bottom first). -/
def descend {κ : Type} [DecidableEq κ] (w : World) (spec : List String) (sel : Sel) (key : Key κ) (store : Store κ)
    (combining : Bool) :
    List Level → Except Err (List Chunk × List Level)
  | [] => throw Err.runtimeError                  -- a plugin without dependencies cannot allow superruns
  | lv :: below =>
    match store.lookup (key, lv.dataType) with
    | some cs => do pure (← cs.mapM reload, [])
    | none =>
      if !lv.allow || combining then do pure (← concatLoader w spec sel below.length, [])
      else do
        let (b, above) ← descend w spec sel key store combining below
        pure (b, above ++ [lv])

/-- run the levels to compute over the base stream; every level's output, bottom first -/
def runLevels (runId : String) : List Level → List Chunk → Except Err (List (Level × List Chunk))
  | [], _ => pure []
  | lv :: rest, cs => do
    let out ← pluginRun lv runId cs
    let more ← runLevels runId rest out
    pure ((lv, out) :: more)

def saveAll {κ : Type} (argmin0 : Int) (key : Key κ) (runId : String) : List (Level × List Chunk) → Store κ → Except Err (Store κ)
  | [], st => pure st
  | (lv, out) :: rest, st => do
    let s ← save argmin0 lv runId out
    saveAll argmin0 key runId rest (((key, lv.dataType), s) :: st)

/-- what `get_iter` yields: the output of the topmost computed level, or the loaded / combined base stream -/
def topOutput (outs : List (Level × List Chunk)) (base : List Chunk) : List Chunk :=
  match outs.getLast? with
  | some (_, o) => o
  | none => base

/-- the savers: every computed level is saved when `write_superruns` is set -/
def storeAfter {κ : Type} (argmin0 : Int) (key : Key κ) (runId : String) (write : Bool) (outs : List (Level × List Chunk))
    (store : Store κ) : Except Err (Store κ) :=
  if write then saveAll argmin0 key runId outs store else pure store

/-- `get_iter(superrun, target = level n, combining=…)` with `write_superruns = write`: the yielded chunks and
the storage afterwards. -/
def superGet {κ : Type} [DecidableEq κ] (H : List (String × Option (Int × Int)) → Bool → κ) (w : World) (spec : List String)
    (sel : Sel) (store : Store κ) (n : Nat)
    (combining write : Bool) : Except Err (List Chunk × Store κ) :=
  match w.levels[n]? with
  | none => throw Err.keyError
  | some top =>
    if !top.allow then throw Err.valueError       -- "Plugin … does not allowed superrun!"
    else
      descend w spec sel (superrunKey H w.superName spec sel combining) store combining (w.levels.take (n + 1)).reverse
        >>= fun p =>
      runLevels w.superName p.2 p.1 >>= fun outs =>
      -- `get_iter` wraps the processor's generator in `continuity_check`
      Superrun.continuityCheck (topOutput outs p.1) >>= fun _ =>
      storeAfter w.argmin0 (superrunKey H w.superName spec sel combining) w.superName write outs store >>= fun store =>
      pure (topOutput outs p.1, store)

/-- `is_stored(superrun, level n)` under the current definition -/
def isStored {κ : Type} [DecidableEq κ] (H : List (String × Option (Int × Int)) → Bool → κ) (w : World) (spec : List String)
    (sel : Sel) (store : Store κ) (n : Nat)
    (combining : Bool) : Bool :=
  match w.levels[n]? with
  | none => false
  | some lv => (store.lookup (superrunKey H w.superName spec sel combining, lv.dataType)).isSome

end Strax.Superrun
