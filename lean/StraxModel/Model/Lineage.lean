import StraxModel.Model.Basic
/-
  T8 Lineage / Context (property C02): option values, `hashablize` + the JSON text fed to SHA-1,
  lineage construction (incl. child plugins and the `track` flag), `_filter_lineage` / fuzzy
  matching, and the context state machine with the `_fixed_plugin_cache`, the `_context_hash`
  that guards it, and a shared storage directory.

  Anchors: strax/context.py (register, set_config, new_context, _set_plugin_config, _context_hash,
  _plugins_are_cached, _plugins_to_cache, __get_plugin, __add_lineage_to_plugin, key_for, is_stored,
  get_components.check_cache, make, get_array), strax/utils.py (hashablize, deterministic_hash),
  strax/storage/common.py (DataKey, _matches, _filter_lineage), strax/storage/files.py (_find).

  Simplifications (validated by the correspondence check, listed in notes/C02.md): one run id, one
  DataDirectory, save_when = ALWAYS for every output, `set_config` in mode `update`, `new_context()`
  without arguments, no per-run defaults.  Plugins may provide several data types.
  Import-free (core Lean only).
-/
namespace Strax.Lineage
open Strax

/-! ## Option values -/

/-- Python option values: int, str, tuple (`seq true`) / list (`seq false`), dict with str keys
(association list in insertion order), set of str (elements in *iteration order*, which depends
on `PYTHONHASHSEED`), bool, None, and floats whose `repr` is a plain decimal (sign, integer part,
at least one fractional digit — `1e-4 ≤ |x| < 1e16` or `x = 0`; exponent forms, inf and nan are
outside the model). -/
inductive Val where
  | int (i : Int)
  | str (s : String)
  | seq (tup : Bool) (l : List Val)
  | dict (d : List (String × Val))
  | sset (l : List String)
  | bool (b : Bool)
  | none
  | float (neg : Bool) (ip : Nat) (fd : Fin 10) (fds : List (Fin 10))
deriving Repr, Inhabited

/-- What `hashablize` leaves for `json.dumps`: ints, strings, (nested) lists, and the JSON
scalars `true` / `false` / `null` / floats. -/
inductive Canon where
  | int (i : Int)
  | str (s : String)
  | list (l : List Canon)
  | bool (b : Bool)
  | null
  | float (neg : Bool) (ip : Nat) (fd : Fin 10) (fds : List (Fin 10))
deriving Repr, Inhabited

/-! ### decidable equality (the deriving handler does not cover nested inductives) -/

mutual
def Val.beq : Val → Val → Bool
  | .int a, .int b => a == b
  | .str a, .str b => a == b
  | .seq t l, .seq t' l' => t == t' && Val.beqList l l'
  | .dict d, .dict d' => Val.beqPairs d d'
  | .sset l, .sset l' => l == l'
  | .bool a, .bool b => a == b
  | .none, .none => true
  | .float n i d ds, .float n' i' d' ds' => n == n' && i == i' && d == d' && ds == ds'
  | _, _ => false
def Val.beqList : List Val → List Val → Bool
  | [], [] => true
  | a :: as, b :: bs => Val.beq a b && Val.beqList as bs
  | _, _ => false
def Val.beqPairs : List (String × Val) → List (String × Val) → Bool
  | [], [] => true
  | (k, a) :: as, (k', b) :: bs => k == k' && Val.beq a b && Val.beqPairs as bs
  | _, _ => false
end

mutual
theorem Val.beq_eq : ∀ a b : Val, Val.beq a b = true → a = b
  | .int a, .int b, h => by simp [Val.beq] at h; simp [h]
  | .str a, .str b, h => by simp [Val.beq] at h; simp [h]
  | .seq t l, .seq t' l', h => by
      simp [Val.beq] at h; have := Val.beqList_eq l l' h.2; simp [h.1, this]
  | .dict d, .dict d', h => by
      simp [Val.beq] at h; have := Val.beqPairs_eq d d' h; simp [this]
  | .sset l, .sset l', h => by simp [Val.beq] at h; simp [h]
  | .bool a, .bool b, h => by simp [Val.beq] at h; simp [h]
  | .none, .none, _ => rfl
  | .float n i d ds, .float n' i' d' ds', h => by simp [Val.beq] at h; simp [h]
  | .int _, .str _, h | .int _, .seq _ _, h | .int _, .dict _, h | .int _, .sset _, h | .int _, .bool _, h | .int _, .none, h | .int _, .float _ _ _ _, h
  | .str _, .int _, h | .str _, .seq _ _, h | .str _, .dict _, h | .str _, .sset _, h | .str _, .bool _, h | .str _, .none, h | .str _, .float _ _ _ _, h
  | .seq _ _, .int _, h | .seq _ _, .str _, h | .seq _ _, .dict _, h | .seq _ _, .sset _, h | .seq _ _, .bool _, h | .seq _ _, .none, h | .seq _ _, .float _ _ _ _, h
  | .dict _, .int _, h | .dict _, .str _, h | .dict _, .seq _ _, h | .dict _, .sset _, h | .dict _, .bool _, h | .dict _, .none, h | .dict _, .float _ _ _ _, h
  | .sset _, .int _, h | .sset _, .str _, h | .sset _, .seq _ _, h | .sset _, .dict _, h | .sset _, .bool _, h | .sset _, .none, h | .sset _, .float _ _ _ _, h
  | .bool _, .int _, h | .bool _, .str _, h | .bool _, .seq _ _, h | .bool _, .dict _, h | .bool _, .sset _, h | .bool _, .none, h | .bool _, .float _ _ _ _, h
  | .none, .int _, h | .none, .str _, h | .none, .seq _ _, h | .none, .dict _, h | .none, .sset _, h | .none, .bool _, h | .none, .float _ _ _ _, h
  | .float _ _ _ _, .int _, h | .float _ _ _ _, .str _, h | .float _ _ _ _, .seq _ _, h | .float _ _ _ _, .dict _, h | .float _ _ _ _, .sset _, h | .float _ _ _ _, .bool _, h | .float _ _ _ _, .none, h => by
      simp [Val.beq] at h
theorem Val.beqList_eq : ∀ a b : List Val, Val.beqList a b = true → a = b
  | [], [], _ => rfl
  | a :: as, b :: bs, h => by
      simp [Val.beqList] at h; rw [Val.beq_eq a b h.1, Val.beqList_eq as bs h.2]
  | [], _ :: _, h | _ :: _, [], h => by simp [Val.beqList] at h
theorem Val.beqPairs_eq : ∀ a b : List (String × Val), Val.beqPairs a b = true → a = b
  | [], [], _ => rfl
  | (k, a) :: as, (k', b) :: bs, h => by
      simp [Val.beqPairs] at h; rw [h.1.1, Val.beq_eq a b h.1.2, Val.beqPairs_eq as bs h.2]
  | [], _ :: _, h | _ :: _, [], h => by simp [Val.beqPairs] at h
end

mutual
theorem Val.beq_refl : ∀ a : Val, Val.beq a a = true
  | .int a => by simp [Val.beq]
  | .str a => by simp [Val.beq]
  | .seq t l => by simp [Val.beq, Val.beqList_refl l]
  | .dict d => by simp [Val.beq, Val.beqPairs_refl d]
  | .sset l => by simp [Val.beq]
  | .bool b => by simp [Val.beq]
  | .none => by simp [Val.beq]
  | .float n i d ds => by simp [Val.beq]
theorem Val.beqList_refl : ∀ a : List Val, Val.beqList a a = true
  | [] => rfl
  | a :: as => by simp [Val.beqList, Val.beq_refl a, Val.beqList_refl as]
theorem Val.beqPairs_refl : ∀ a : List (String × Val), Val.beqPairs a a = true
  | [] => rfl
  | (k, a) :: as => by simp [Val.beqPairs, Val.beq_refl a, Val.beqPairs_refl as]
end

instance : DecidableEq Val := fun a b =>
  if h : Val.beq a b = true then isTrue (Val.beq_eq a b h)
  else isFalse (fun e => h (e ▸ Val.beq_refl a))

mutual
def Canon.beq : Canon → Canon → Bool
  | .int a, .int b => a == b
  | .str a, .str b => a == b
  | .list l, .list l' => Canon.beqList l l'
  | .bool a, .bool b => a == b
  | .null, .null => true
  | .float n i d ds, .float n' i' d' ds' => n == n' && i == i' && d == d' && ds == ds'
  | _, _ => false
def Canon.beqList : List Canon → List Canon → Bool
  | [], [] => true
  | a :: as, b :: bs => Canon.beq a b && Canon.beqList as bs
  | _, _ => false
end

mutual
theorem Canon.beq_eq : ∀ a b : Canon, Canon.beq a b = true → a = b
  | .int a, .int b, h => by simp [Canon.beq] at h; simp [h]
  | .str a, .str b, h => by simp [Canon.beq] at h; simp [h]
  | .list l, .list l', h => by
      simp [Canon.beq] at h; have := Canon.beqList_eq l l' h; simp [this]
  | .bool a, .bool b, h => by simp [Canon.beq] at h; simp [h]
  | .null, .null, _ => rfl
  | .float n i d ds, .float n' i' d' ds', h => by simp [Canon.beq] at h; simp [h]
  | .int _, .str _, h | .int _, .list _, h | .int _, .bool _, h | .int _, .null, h | .int _, .float _ _ _ _, h
  | .str _, .int _, h | .str _, .list _, h | .str _, .bool _, h | .str _, .null, h | .str _, .float _ _ _ _, h
  | .list _, .int _, h | .list _, .str _, h | .list _, .bool _, h | .list _, .null, h | .list _, .float _ _ _ _, h
  | .bool _, .int _, h | .bool _, .str _, h | .bool _, .list _, h | .bool _, .null, h | .bool _, .float _ _ _ _, h
  | .null, .int _, h | .null, .str _, h | .null, .list _, h | .null, .bool _, h | .null, .float _ _ _ _, h
  | .float _ _ _ _, .int _, h | .float _ _ _ _, .str _, h | .float _ _ _ _, .list _, h | .float _ _ _ _, .bool _, h | .float _ _ _ _, .null, h => by
      simp [Canon.beq] at h
theorem Canon.beqList_eq : ∀ a b : List Canon, Canon.beqList a b = true → a = b
  | [], [], _ => rfl
  | a :: as, b :: bs, h => by
      simp [Canon.beqList] at h; rw [Canon.beq_eq a b h.1, Canon.beqList_eq as bs h.2]
  | [], _ :: _, h | _ :: _, [], h => by simp [Canon.beqList] at h
end

mutual
theorem Canon.beq_refl : ∀ a : Canon, Canon.beq a a = true
  | .int a => by simp [Canon.beq]
  | .str a => by simp [Canon.beq]
  | .list l => by simp [Canon.beq, Canon.beqList_refl l]
  | .bool b => by simp [Canon.beq]
  | .null => by simp [Canon.beq]
  | .float n i d ds => by simp [Canon.beq]
theorem Canon.beqList_refl : ∀ a : List Canon, Canon.beqList a a = true
  | [] => rfl
  | a :: as => by simp [Canon.beqList, Canon.beq_refl a, Canon.beqList_refl as]
end

instance : DecidableEq Canon := fun a b =>
  if h : Canon.beq a b = true then isTrue (Canon.beq_eq a b h)
  else isFalse (fun e => h (e ▸ Canon.beq_refl a))

/-! ## Python `dict` on association lists (insertion ordered, unique keys by construction) -/

/-- `k in d` -/
def hasKey (d : List (String × α)) (k : String) : Bool := d.any (·.1 == k)

/-- `d[k] = v`: overwrite in place, else append -/
def dictSet : List (String × α) → String → α → List (String × α)
  | [], k, v => [(k, v)]
  | (k', v') :: rest, k, v => if k' == k then (k', v) :: rest else (k', v') :: dictSet rest k v

/-- `d.update(e)` -/
def dictUpdate (d e : List (String × α)) : List (String × α) :=
  e.foldl (fun acc kv => dictSet acc kv.1 kv.2) d

/-! ## `hashablize` and the JSON text -/

/-- insert into a list sorted by key (`sorted(obj.items())`; dict keys are unique, so only keys
are ever compared) -/
def insertKV (k : String) (c : α) : List (String × α) → List (String × α)
  | [] => [(k, c)]
  | (k', c') :: rest => if k ≤ k' then (k, c) :: (k', c') :: rest else (k', c') :: insertKV k c rest

def sortKV : List (String × α) → List (String × α)
  | [] => []
  | (k, c) :: rest => insertKV k c (sortKV rest)

def pairCanon (kc : String × Canon) : Canon := .list [.str kc.1, kc.2]

/-- `sorted(...)` of a set of strings -/
def insertS (k : String) : List String → List String
  | [] => [k]
  | k' :: rest => if k ≤ k' then k :: k' :: rest else k' :: insertS k rest

def sortS : List String → List String
  | [] => []
  | k :: rest => insertS k (sortS rest)

mutual
/-- `strax.utils.hashablize`: dicts become key-sorted tuples of `(key, value)` pairs, tuples and
lists become tuples (JSON lists), recursively; sets become sorted tuples (`sortSets`; before the
fix they were taken in iteration order). -/
def canonWith (sortSets : Bool) : Val → Canon
  | .int i => .int i
  | .str s => .str s
  | .seq _ l => .list (canonListWith sortSets l)
  | .dict d => .list ((sortKV (canonPairsWith sortSets d)).map pairCanon)
  | .sset l => .list ((if sortSets then sortS l else l).map Canon.str)
  | .bool b => .bool b
  | .none => .null
  | .float n i d ds => .float n i d ds
def canonListWith (sortSets : Bool) : List Val → List Canon
  | [] => []
  | v :: vs => canonWith sortSets v :: canonListWith sortSets vs
def canonPairsWith (sortSets : Bool) : List (String × Val) → List (String × Canon)
  | [] => []
  | (k, v) :: rest => (k, canonWith sortSets v) :: canonPairsWith sortSets rest
end

/-- `hashablize` as it is now -/
abbrev canon : Val → Canon := canonWith true
abbrev canonList : List Val → List Canon := canonListWith true
abbrev canonPairs : List (String × Val) → List (String × Canon) := canonPairsWith true

/-- JSON string escaping as done by `json.dumps` for the characters the harness uses (`"`, `\`,
newline, carriage return, tab); other control and non-ASCII characters are outside the model. -/
def escapeChar (c : Char) : String :=
  if c == '"' then "\\\"" else if c == '\\' then "\\\\" else if c == '\n' then "\\n"
  else if c == '\r' then "\\r" else if c == '\t' then "\\t" else c.toString

def escape (s : String) : String := String.join (s.toList.map escapeChar)

/-- the digits after the decimal point -/
def digitsString (ds : List (Fin 10)) : String := String.ofList (ds.map fun d => Nat.digitChar d.val)

mutual
/-- exactly `json.dumps(hashablize(x), cls=NumpyJSONEncoder)` — the text fed to SHA-1 -/
def canonString : Canon → String
  | .int i => toString i
  | .str s => "\"" ++ escape s ++ "\""
  | .list l => "[" ++ ", ".intercalate (canonStrings l) ++ "]"
  | .bool b => if b then "true" else "false"
  | .null => "null"
  | .float n i d ds => (if n then "-" else "") ++ toString i ++ "." ++ digitsString (d :: ds)
def canonStrings : List Canon → List String
  | [] => []
  | c :: cs => canonString c :: canonStrings cs
end

/-! ## Python `==` on option values (dicts compare as maps, tuple ≠ list) -/

mutual
/-- normal form for Python equality: dict items sorted by key, everything else kept -/
def norm : Val → Val
  | .int i => .int i
  | .str s => .str s
  | .seq t l => .seq t (normList l)
  | .dict d => .dict (sortKV (normPairs d))
  | .sset l => .sset (sortS l)
  | .bool b => .bool b
  | .none => .none
  | .float n i d ds => .float n i d ds
def normList : List Val → List Val
  | [] => []
  | v :: vs => norm v :: normList vs
def normPairs : List (String × Val) → List (String × Val)
  | [] => []
  | (k, v) :: rest => (k, norm v) :: normPairs rest
end

def pyEq (a b : Val) : Bool := decide (norm a = norm b)

mutual
/-- what `json.loads(json.dumps(x))` gives back: tuples have become lists -/
def jsonRT : Val → Val
  | .int i => .int i
  | .str s => .str s
  | .seq _ l => .seq false (jsonRTList l)
  | .dict d => .dict (jsonRTPairs d)
  | .sset l => .sset l   -- not JSON serialisable: a set-valued option cannot be saved at all
  | .bool b => .bool b
  | .none => .none
  | .float n i d ds => .float n i d ds
def jsonRTList : List Val → List Val
  | [] => []
  | v :: vs => jsonRT v :: jsonRTList vs
def jsonRTPairs : List (String × Val) → List (String × Val)
  | [] => []
  | (k, v) :: rest => (k, jsonRT v) :: jsonRTPairs rest
end

/-! ## Plugin classes, registry, config -/

/-- `strax.Option`: `parent = some p` ⇔ `child_option=True, parent_option_name=p` -/
structure Opt where
  name : String
  default : Option Val
  track : Bool
  parent : Option String
deriving Repr, DecidableEq, Inhabited

/-- A plugin class as far as lineage and the context hash can see it.  The class provides
`alsoProvides ++ [provides]`: `provides` is `cls.provides[-1]`, the key of its lineage entry, and
`alsoProvides` are the other outputs of a multi-output plugin.  `options` is `takes_config` in
order (for a child plugin: the parent's options first).  `bases` are `(__name__, version())` of
`__bases__`, used only when `child` (`child_plugin = True`). -/
structure PluginClass where
  name : String
  version : String
  provides : String
  dependsOn : List String
  options : List Opt
  child : Bool
  bases : List (String × String)
  compressor : String
  inputTimeout : Int
  alsoProvides : List String
deriving Repr, DecidableEq, Inhabited

/-- `cls.provides` as Python has it -/
def PluginClass.outputs (cls : PluginClass) : List String := cls.alsoProvides ++ [cls.provides]

/-- `d in cls.provides` -/
def PluginClass.makes (cls : PluginClass) (d : String) : Bool := cls.provides == d || cls.alsoProvides.contains d

/-- the two classes have an output in common -/
def PluginClass.overlaps (a b : PluginClass) : Bool := a.outputs.any b.makes

abbrev Config := List (String × Val)

/-- `_plugin_class_registry` as the list of registered classes; `register` keeps their outputs
pairwise disjoint, so "data type ↦ class" is `lookup` -/
abbrev Registry := List PluginClass

def Registry.lookup (r : Registry) (d : String) : Option PluginClass := r.find? (·.makes d)

/-- `register` replaces a class iff it takes over an output of a *different* registered class -/
def Registry.replaces (r : Registry) (cls : PluginClass) : Bool := r.any fun c => c != cls && c.overlaps cls

/-- the registry after `register(cls)`: every other class that shares an output with `cls` is
deregistered for all its outputs ("to preserve a one-to-one mapping"), `cls` provides all of its own -/
def Registry.set (r : Registry) (cls : PluginClass) : Registry :=
  let kept := r.filter fun c => c == cls || !c.overlaps cls
  if kept.contains cls then kept else kept ++ [cls]

/-! ## Effective plugin configuration (`Context._set_plugin_config`) -/

/-- context config plus the defaults of the options it does not set (`Option.validate`), in
`takes_config` order; options without default stay absent (tolerant mode) -/
def withDefaults (opts : List Opt) (cfg : Config) : Config :=
  opts.foldl (fun acc o => if hasKey acc o.name then acc else
    match o.default with
    | some v => acc ++ [(o.name, v)]
    | none => acc) cfg

/-- some option has neither a value nor a default (`InvalidConfiguration` when not tolerant) -/
def missingOption (cls : PluginClass) (cfg : Config) : Bool :=
  cls.options.any fun o => !hasKey cfg o.name && o.default.isNone

/-- the child-plugin loop: `p.config[parent_name] = config[option_name]` for every child option -/
def childOverwrite (full : Config) : List Opt → Config → Except Err Config
  | [], pc => .ok pc
  | o :: rest, pc =>
    match o.parent with
    | none => childOverwrite full rest pc
    | some pn =>
      match full.lookup o.name with
      | none => .error .keyError
      | some v => if hasKey pc pn then childOverwrite full rest (dictSet pc pn v) else .error .assertionError

/-- `p.config` after `_set_plugin_config(p, run_id, tolerant=True)` -/
def pluginConfig (cls : PluginClass) (cfg : Config) : Except Err Config :=
  let full := withDefaults cls.options cfg
  let pc := full.filter fun kv => cls.options.any (·.name == kv.1)
  if cls.child then childOverwrite full cls.options pc else .ok pc

/-! ## Lineage (`Context.__add_lineage_to_plugin`) -/

structure Entry where
  cls : String
  version : String
  config : Config
deriving Repr, DecidableEq, Inhabited

/-- `{data_type: (class name, version, {tracked option: value})}` for the type and all ancestors -/
abbrev Lineage := List (String × Entry)

def isTracked (cls : PluginClass) (k : String) : Bool :=
  match cls.options.find? (·.name == k) with
  | some o => o.track
  | none => false

/-- the `configs` dict of the lineage entry -/
def entryConfig (cls : PluginClass) (pc : Config) : Config :=
  if cls.child then
    let parentOpts := cls.options.filterMap (·.parent)
    let tracked := pc.filter fun kv => !parentOpts.contains kv.1 && isTracked cls kv.1
    cls.bases.foldl (fun acc b => dictSet acc b.1 (.str b.2)) tracked
  else pc.filter fun kv => isTracked cls kv.1

def ownEntry (cls : PluginClass) (pc : Config) : Lineage :=
  [(cls.provides, ⟨cls.name, cls.version, entryConfig cls pc⟩)]

/-- `Plugin.__init__` refuses duplicate dependencies -/
def dupDeps : List String → Bool
  | [] => false
  | d :: ds => ds.contains d || dupDeps ds

/-- `[f(x) for x in l]` where `f` may raise: the first exception wins -/
def mapE (f : α → Except Err β) : List α → Except Err (List β)
  | [] => .ok []
  | a :: as =>
    match f a with
    | .error e => .error e
    | .ok b =>
      match mapE f as with
      | .error e => .error e
      | .ok bs => .ok (b :: bs)

/-- `lineage.update(dep.lineage)` for every dependency in order -/
def mergeLineage (own : Lineage) (deps : List Lineage) : Lineage := deps.foldl dictUpdate own

/-- The lineage a context with registry `r` and config `c` and an empty plugin cache assigns to
data type `d`.  Recursion on dependency depth; running out of fuel is Python's `RecursionError`
(a `RuntimeError`) on a dependency cycle. -/
def lineage (r : Registry) (c : Config) : Nat → String → Except Err Lineage
  | 0, _ => .error .runtimeError
  | n + 1, d =>
    match r.lookup d with
    | none => .error .keyError
    | some cls =>
      if dupDeps cls.dependsOn then .error .valueError else
      match pluginConfig cls c with
      | .error e => .error e
      | .ok pc =>
        match mapE (lineage r c n) cls.dependsOn with
        | .error e => .error e
        | .ok deps => .ok (mergeLineage (ownEntry cls pc) deps)

/-- fuel that suffices for every acyclic registry -/
def fuelOf (r : Registry) : Nat := r.length + 1

def entryVal (e : Entry) : Val := .seq true [.str e.cls, .str e.version, .dict e.config]

def Lineage.toVal (l : Lineage) : Val := .dict (l.map fun ke => (ke.1, entryVal ke.2))

/-- `hashablize(lineage)` -/
def lineageCanon (l : Lineage) : Canon := canon l.toVal

/-- `DataKey.lineage_hash` = `H (json text)`; `H` stands for SHA-1 + base32 truncation -/
def keyOf {K : Type} (H : String → K) (l : Lineage) : K := H (canonString (lineageCanon l))

/-! ## Fuzzy matching (`StorageFrontend._matches`, `_filter_lineage`) -/

def filterLineage (l : Lineage) (ff ffo : List String) : Lineage :=
  (l.filter fun ke => !ff.contains ke.1).map fun ke =>
    (ke.1, { ke.2 with config := ke.2.config.filter fun kv => !ffo.contains kv.1 })

/-- the lineage as read back from `metadata.json` -/
def storedLineage (l : Lineage) : Lineage :=
  l.map fun ke => (ke.1, { ke.2 with config := jsonRTPairs ke.2.config })

/-! ### Python `==` on what `hashablize` returns -/

/-- digits after the point without trailing zeros -/
def stripZeros (ds : List (Fin 10)) : List (Fin 10) := (ds.reverse.dropWhile (· == 0)).reverse

/-- the numeric value of a JSON scalar in a normal form in which Python's `==` is equality:
`True == 1 == 1.0`, `False == 0 == 0.0 == -0.0` -/
def Canon.numKey : Canon → Option (Bool × Nat × List (Fin 10))
  | .int i => some (decide (i < 0), i.natAbs, [])
  | .bool b => some (false, if b then 1 else 0, [])
  | .float n ip d ds =>
    let fr := stripZeros (d :: ds)
    some (n && !(ip == 0 && fr.isEmpty), ip, fr)
  | _ => none

mutual
/-- Python `==` of two hashablized values: tuples element-wise, strings and `None` as such, and
int / bool / float *numerically across types* -/
def Canon.pyEq : Canon → Canon → Bool
  | .str a, .str b => a == b
  | .list l, .list l' => Canon.pyEqList l l'
  | .null, .null => true
  | a, b =>
    match a.numKey, b.numKey with
    | some x, some y => x == y
    | _, _ => false
def Canon.pyEqList : List Canon → List Canon → Bool
  | [], [] => true
  | a :: as, b :: bs => Canon.pyEq a b && Canon.pyEqList as bs
  | _, _ => false
end

/-- how fuzzy `_matches` compares the two filtered lineages -/
inductive MatchRule where
  | pyEqVals    -- before the first fix: Python `==` of the dicts themselves (JSON lists vs tuples)
  | pyEqCanon   -- after the first fix: Python `==` of the `hashablize`d dicts (`1 == True == 1.0`)
  | textEq      -- as the code is now: equal `deterministic_hash`, i.e. equal JSON texts — what keys are made of
deriving Repr, DecidableEq

/-- `_matches(metadata["lineage"], key.lineage, fuzzy_for, fuzzy_for_options)` in fuzzy mode
(`stored` is what was saved, before the JSON round trip). -/
def fuzzyMatches (m : MatchRule) (stored want : Lineage) (ff ffo : List String) : Bool :=
  match m with
  | .textEq =>
    decide (lineageCanon (filterLineage (storedLineage stored) ff ffo) = lineageCanon (filterLineage want ff ffo))
  | .pyEqCanon =>
    Canon.pyEq (lineageCanon (filterLineage (storedLineage stored) ff ffo)) (lineageCanon (filterLineage want ff ffo))
  | .pyEqVals => pyEq (filterLineage (storedLineage stored) ff ffo).toVal (filterLineage want ff ffo).toVal

/-! ## Auto-inferred versions (`Plugin._auto_version`, used when `__version__ = None`) -/

/-- `"auto_" + deterministic_hash({attr: deterministic_hash(inspect.getsource(attr)) for attr in dir(cls)})`;
`attrs` maps every attribute of the class to its source text (for non-code attributes: the text
`str(obj)` or the hashed value stands in — any text that determines the attribute) -/
def autoVersion (H : String → String) (attrs : List (String × String)) : String :=
  "auto_" ++ H (canonString (canon (.dict (attrs.map fun a => (a.1, Val.str (H (canonString (.str a.2))))))))

/-! ## Context state machine -/

/-- an initialised plugin instance as kept in `_fixed_plugin_cache` -/
structure PluginInst where
  cls : PluginClass
  lineage : Lineage
deriving Repr, DecidableEq, Inhabited

abbrev CacheMap := List (String × PluginInst)

/-- `_fixed_plugin_cache`: `None` or `{context_hash: {data_type: plugin}}` (always one hash) -/
abbrev Cache (K : Type) := Option (K × CacheMap)

structure Ctx (K : Type) where
  registry : Registry
  config : Config
  fuzzyFor : List String
  fuzzyOpts : List String
  cache : Cache K
deriving Repr

/-- one data directory entry `<run>-<type>-<hash>`: the lineage in its metadata and what the rows
in it were really computed from (`prov`, same shape as a lineage) -/
structure Item (K : Type) where
  dataType : String
  key : K
  lineage : Lineage
  prov : Lineage
deriving Repr

/-- The rules of the code as it is now (`Rules.fixed`) and of the code before three fixes:
* `resetOnReplace`: `register` resets `_fixed_plugin_cache` when it replaces a class (D4);
* `pairHash`: `_context_hash` hashes the pair `(config, {type: (version, compressor, timeout)})`
  instead of one merged dict in which an option named like a data type is overwritten;
* `matchRule`: how fuzzy `_matches` compares (see `MatchRule`). -/
structure Rules where
  resetOnReplace : Bool
  pairHash : Bool
  matchRule : MatchRule
deriving Repr, DecidableEq

/-- the code as it is now -/
def Rules.fixed : Rules := ⟨true, true, .textEq⟩
/-- the cache rule before the D4 fix (everything else as now) -/
def Rules.old : Rules := ⟨false, true, .textEq⟩
/-- the context hash before its fix (everything else as now) -/
def Rules.mergedHash : Rules := ⟨true, false, .textEq⟩
/-- fuzzy matching before its first fix (everything else as now) -/
def Rules.pyEqMatch : Rules := ⟨true, true, .pyEqVals⟩
/-- fuzzy matching between its two fixes: Python `==` of the `hashablize`d lineages (`1 == True`) -/
def Rules.pyEqCanonMatch : Rules := ⟨true, true, .pyEqCanon⟩

/-- `{data_type: (version, compressor, input_timeout)}` of every registered non-temporary type -/
def registryHashInput (r : Registry) : List (String × Val) :=
  r.flatMap fun cls => (cls.outputs.filter fun d => !d.startsWith "_temp_").map fun d =>
    (d, .seq true [.str cls.version, .str cls.compressor, .int cls.inputTimeout])

/-- what `_context_hash` feeds to `deterministic_hash` -/
def contextHashInput (rules : Rules) (r : Registry) (c : Config) : Val :=
  if rules.pairHash then .seq true [.dict c, .dict (dictUpdate [] (registryHashInput r))]
  else .dict (dictUpdate c (registryHashInput r))

def contextHash {K : Type} (rules : Rules) (H : String → K) (r : Registry) (c : Config) : K :=
  H (canonString (canon (contextHashInput rules r c)))

section
variable {K : Type} [DecidableEq K]

/-- `_plugins_are_cached((d,))` + lookup -/
def cachedInst (cache : Cache K) (h : K) (d : String) : Option PluginInst :=
  match cache with
  | none => none
  | some (h', m) => if h' = h then m.lookup d else none

/-- `_plugins_to_cache({d: inst})` -/
def toCache (cache : Cache K) (h : K) (d : String) (inst : PluginInst) : Cache K :=
  match cache with
  | none => some (h, [(d, inst)])
  | some (h', m) => if h' = h then some (h, dictSet m d inst) else some (h, [(d, inst)])

/-- `_plugins_to_cache({d: inst for d in inst.provides})` -/
def toCacheAll (cache : Cache K) (h : K) (inst : PluginInst) : List String → Cache K
  | [] => cache
  | d :: ds => toCacheAll (toCache cache h d inst) h inst ds

/-- resolve the dependencies in order, threading the cache; the first exception wins (the cache
keeps what was added before it) -/
def foldDeps (f : String → Cache K → Except Err PluginInst × Cache K) :
    List String → Cache K → Except Err (List Lineage) × Cache K
  | [], cache => (.ok [], cache)
  | x :: xs, cache =>
    match f x cache with
    | (.error e, cache') => (.error e, cache')
    | (.ok i, cache') =>
      match foldDeps f xs cache' with
      | (.error e, cache'') => (.error e, cache'')
      | (.ok ls, cache'') => (.ok (i.lineage :: ls), cache'')

/-- `Context.__get_plugin` with the cache threaded through (the cache keeps what was added before
an exception).  `h` is the current context hash. -/
def getPlugin (r : Registry) (c : Config) (h : K) :
    Nat → String → Cache K → Except Err PluginInst × Cache K
  | 0, _, cache => (.error .runtimeError, cache)
  | n + 1, d, cache =>
    match cachedInst cache h d with
    | some inst => (.ok inst, cache)
    | none =>
      match r.lookup d with
      | none => (.error .keyError, cache)
      | some cls =>
        if dupDeps cls.dependsOn then (.error .valueError, cache) else
        match pluginConfig cls c with
        | .error e => (.error e, cache)
        | .ok pc =>
          match foldDeps (getPlugin r c h n) cls.dependsOn cache with
          | (.error e, cache') => (.error e, cache')
          | (.ok ls, cache') =>
            let inst : PluginInst := ⟨cls, mergeLineage (ownEntry cls pc) ls⟩
            (.ok inst, toCacheAll cache' h inst cls.outputs)

/-- `DataDirectory._find`: exact directory name first, then (fuzzy only) the first directory of
that data type whose metadata lineage matches.  (The real scan order is `os.listdir`'s.) -/
def findItem (rules : Rules) (H : String → K) (storage : List (Item K)) (d : String) (want : Lineage)
    (ff ffo : List String) : Option (Item K) :=
  match storage.find? (fun it => it.dataType == d && decide (it.key = keyOf H want)) with
  | some it => some it
  | none =>
    if ff.isEmpty && ffo.isEmpty then none
    else storage.find? fun it => it.dataType == d && fuzzyMatches rules.matchRule it.lineage want ff ffo

/-- `Context._find_options['fuzzy_for']`: the data types mapped through the registry -/
def findOpts (r : Registry) : List String → Except Err (List String)
  | [] => .ok []
  | k :: ks =>
    match r.lookup k with
    | none => .error .keyError
    | some cls =>
      match findOpts r ks with
      | .error e => .error e
      | .ok rest => .ok (cls.provides :: rest)

/-- `get_components.check_cache` + the processing it sets up: load `d` if some frontend has it,
else compute it from its dependencies (recursively) and, unless fuzzy matching is on, save it.
Returns what the rows of `d` were computed from, and the new directory entries.  `m` is the
plugin cache after `_get_plugins((d,))`; a missing entry cannot happen (`Err.other` marks it). -/
def components (rules : Rules) (H : String → K) (m : CacheMap) (cfg : Config) (storage : List (Item K))
    (ff ffo : List String) : Nat → String → Except Err (Lineage × List (Item K))
  | 0, _ => .error .runtimeError
  | n + 1, d =>
    match m.lookup d with
    | none => .error .other
    | some inst =>
      match findItem rules H storage d inst.lineage ff ffo with
      | some it => .ok (it.prov, [])
      | none =>
        match mapE (components rules H m cfg storage ff ffo n) inst.cls.dependsOn with
        | .error e => .error e
        | .ok deps =>
          -- `get_components` re-runs `_set_plugin_config(p, tolerant=False)` on every plugin it is
          -- going to run: the rows are computed from the *current* config and the cached *class*,
          -- the `p.config` of the cached instance never matters
          if missingOption inst.cls cfg then .error .other else
          match pluginConfig inst.cls cfg with
          | .error e => .error e
          | .ok pc =>
            let prov := mergeLineage (ownEntry inst.cls pc) (deps.map (·.1))
            -- every output of the plugin is computed and saved (those already there are skipped by `addItems`)
            let saved : List (Item K) :=
              if ff.isEmpty && ffo.isEmpty then
                inst.cls.outputs.map fun o => ⟨o, keyOf H inst.lineage, inst.lineage, prov⟩
              else []
            .ok (prov, (deps.map (·.2)).flatten ++ saved)

/-- a saver never writes a directory that already exists -/
def addItems (storage : List (Item K)) : List (Item K) → List (Item K)
  | [] => storage
  | it :: rest =>
    if storage.any (fun x => x.dataType == it.dataType && decide (x.key = it.key)) then addItems storage rest
    else addItems (storage ++ [it]) rest

/-- operations of one context -/
inductive CtxOp where
  | setConfig (kvs : Config)                 -- `set_config(dict)` (mode update)
  | register (cls : PluginClass)             -- `register(cls)`
  | newContext                               -- `ctx = ctx.new_context()`
  | setFuzzy (ff ffo : List String)          -- `set_context_config(fuzzy_for=…, fuzzy_for_options=…)`
  | lineage (d : String)                     -- `ctx.lineage(run, d)` / `key_for`
  | isStored (d : String)                    -- `ctx.is_stored(run, d)`
  | make (d : String)                        -- `ctx.make(run, d)`
  | get (d : String)                         -- `ctx.get_array(run, d)`
deriving Repr, DecidableEq

/-- observable result of an operation; `data prov fuzzy`: rows computed from `prov`, returned by a
context that has fuzzy matching switched on iff `fuzzy` -/
inductive Out where
  | err (e : Err)
  | unit
  | lin (l : Lineage)
  | bool (b : Bool)
  | data (prov : Lineage) (fuzzy : Bool)
deriving Repr, DecidableEq

/-- the default-conflict check at the end of `register`: some registered class (the new one
included) has an option of the same name with a different default -/
def defaultConflict (r : Registry) (cls : PluginClass) : Bool :=
  r.any fun p => p.options.any fun o => cls.options.any fun o' =>
    o'.name == o.name &&
      match o.default, o'.default with
      | some a, some b => !pyEq a b
      | _, _ => false

def Ctx.fuzzy (ctx : Ctx K) : Bool := !(ctx.fuzzyFor.isEmpty && ctx.fuzzyOpts.isEmpty)

/-- `is_stored`: `key_for` (fills the plugin cache), then `find` with the context's find options -/
def isStoredCore (rules : Rules) (H : String → K) (ctx : Ctx K) (storage : List (Item K)) (d : String) :
    Except Err Bool × Cache K :=
  let h := contextHash rules H ctx.registry ctx.config
  match getPlugin ctx.registry ctx.config h (fuelOf ctx.registry) d ctx.cache with
  | (.error e, cache) => (.error e, cache)
  | (.ok inst, cache) =>
    match findOpts ctx.registry ctx.fuzzyFor with
    | .error e => (.error e, cache)
    | .ok ff => (.ok (findItem rules H storage d inst.lineage ff ctx.fuzzyOpts).isSome, cache)

/-- `get_array`: `get_source` (an `is_stored`), `_get_plugins`, `check_cache`, processing, saving -/
def getCore (rules : Rules) (H : String → K) (ctx : Ctx K) (storage : List (Item K)) (d : String) :
    Out × Cache K × List (Item K) :=
  match isStoredCore rules H ctx storage d with
  | (.error e, cache) => (.err e, cache, storage)
  | (.ok _, cache) =>
    match findOpts ctx.registry ctx.fuzzyFor, cache with
    | .ok ff, some (_, m) =>
      match components rules H m ctx.config storage ff ctx.fuzzyOpts (fuelOf ctx.registry) d with
      | .error e => (.err e, cache, storage)
      | .ok (prov, new) => (.data prov ctx.fuzzy, cache, addItems storage new)
    | .error e, _ => (.err e, cache, storage)
    | _, none => (.err .other, cache, storage)

/-- one operation of one context on the shared storage -/
def stepCtx (rules : Rules) (H : String → K) (ctx : Ctx K) (storage : List (Item K)) :
    CtxOp → Out × Ctx K × List (Item K)
  | .setConfig kvs => (.unit, { ctx with config := dictUpdate ctx.config kvs }, storage)
  | .register cls =>
    let replaced := ctx.registry.replaces cls
    let r' := ctx.registry.set cls
    let cache' := if replaced && rules.resetOnReplace then none else ctx.cache
    -- the registry is already updated when the default check raises
    ((if defaultConflict r' cls then .err .valueError else .unit), { ctx with registry := r', cache := cache' }, storage)
  | .newContext => (.unit, { ctx with cache := none }, storage)
  | .setFuzzy ff ffo => (.unit, { ctx with fuzzyFor := ff, fuzzyOpts := ffo }, storage)
  | .lineage d =>
    let h := contextHash rules H ctx.registry ctx.config
    match getPlugin ctx.registry ctx.config h (fuelOf ctx.registry) d ctx.cache with
    | (.error e, cache) => (.err e, { ctx with cache := cache }, storage)
    | (.ok inst, cache) => (.lin inst.lineage, { ctx with cache := cache }, storage)
  | .isStored d =>
    match isStoredCore rules H ctx storage d with
    | (.error e, cache) => (.err e, { ctx with cache := cache }, storage)
    | (.ok b, cache) => (.bool b, { ctx with cache := cache }, storage)
  | .make d =>
    match isStoredCore rules H ctx storage d with
    | (.error e, cache) => (.err e, { ctx with cache := cache }, storage)
    | (.ok true, cache) => (.unit, { ctx with cache := cache }, storage)
    | (.ok false, cache) =>
      match getCore rules H { ctx with cache := cache } storage d with
      | (.data _ _, cache', storage') => (.unit, { ctx with cache := cache' }, storage')
      | (o, cache', storage') => (o, { ctx with cache := cache' }, storage')
  | .get d =>
    match getCore rules H ctx storage d with
    | (o, cache, storage') => (o, { ctx with cache := cache }, storage')

/-- two contexts on one directory -/
structure State (K : Type) where
  main : Ctx K
  second : Ctx K
  storage : List (Item K)
deriving Repr

/-- an operation issued to the main (`second = false`) or the second context -/
structure Op where
  second : Bool
  op : CtxOp
deriving Repr, DecidableEq

def Ctx.empty : Ctx K := ⟨[], [], [], [], none⟩

def State.init : State K := ⟨Ctx.empty, Ctx.empty, []⟩

def State.ctx (s : State K) (second : Bool) : Ctx K := if second then s.second else s.main

def step (rules : Rules) (H : String → K) (s : State K) (o : Op) : Out × State K :=
  match stepCtx rules H (s.ctx o.second) s.storage o.op with
  | (out, ctx', storage') =>
    (out, if o.second then { s with second := ctx', storage := storage' }
          else { s with main := ctx', storage := storage' })

/-- run a history, collecting the outputs -/
def run (rules : Rules) (H : String → K) : State K → List Op → List Out × State K
  | s, [] => ([], s)
  | s, o :: os =>
    match step rules H s o with
    | (out, s') =>
      match run rules H s' os with
      | (outs, s'') => (out :: outs, s'')

/-- a brand-new context with the given settings on an empty directory -/
def freshState (r : Registry) (c : Config) : State K := ⟨⟨r, c, [], [], none⟩, Ctx.empty, []⟩

end

end Strax.Lineage
