import StraxModel.Model.Basic
/-
  T7 — the single-thread message bus `strax.processors.post_office.PostOffice`, the `SaverSpy` of
  `strax/processors/single_thread.py` and the epilogue of `SingleThreadProcessor.iter`, as a deterministic
  pull machine.

  Everything runs in ONE thread: `next(reader)` runs `_read`, which looks into the saved mail or calls
  `_fetch_new`, which calls `next(producer)`; a producer (a `Plugin.iter` generator, a loader) is an abstract
  script `pull g | yield | raise e` whose `pull`s are `next()` calls on the `_read` generators it was given
  when it was registered — so one `next()` of the consumer is a recursion through the dependency graph.
  The recursion carries explicit fuel (`Res.fuel` = ran out; never produced by the driver, which passes
  more fuel than there are script instructions; theorems never rely on it).

  Mirrored 1:1 (the odd corners included):
  * `register_producer` with a tuple of topics registers the same generator under every sub-topic that is not
    in `registered`, but `_multi_output_topics[sub] = the whole tuple` — so exhaustion of the producer calls
    `_ack_topic_exhausted` for EVERY topic of the tuple, loader-fed ones too;
  * `_ack_msg_produced`: count, save the message only if the topic has a registered reader, then `spy.receive`;
  * `_ack_reader_recieved`: the assertion, `everyone_got = min(...)`, `saved = [m for m in saved if m > everyone_got]`;
  * `_ack_topic_exhausted`: `spy.close()` for every spy FIRST, `_exhausted_topics.add` after (skipped if a close raises);
  * the end of `_read`: `_readers_done.append`, and the assertion that nothing is left once every reader is done;
  * `Saver.close`: `if self.closed: raise RuntimeError(already closed)`; `self.closed = True`; … `self._close()` — the flag
    is set BEFORE the part that can fail; `Spy.kill(reason) = self.close()`; `kill_spies` = plain loop, first raise wins.
    Together: D7 (the original exception is replaced by `RuntimeError(… saver already closed)`).
  Payloads: a producer's k-th `yield` has the value k (for a multi-output producer: the dict {sub: k}).
  The rechunker inside `SaverSpy` is the identity here (`rechunk=False`).
-/
namespace Strax.PostOffice
open Strax

/-- exceptions as values: injected ones carry an identity, the others are the ones the bus / saver raise -/
inductive Exc where
  | inj (id : Nat)          -- raised by a producer script, `saver.save` or `saver._close` (fault injection)
  | noProducer              -- RuntimeError("No producer registered for …")
  | hasProducer             -- RuntimeError("… already has a producer")
  | assertion               -- a failed `assert` of post_office.py
  | alreadyClosed           -- RuntimeError("… saver already closed")              (Saver.close)
  | saveToClosed            -- RuntimeError("Attmpt to save to … already closed")  (Saver.save)
deriving Repr, DecidableEq, Inhabited

def Exc.kind : Exc → String
  | .inj _ => "Injected"
  | .noProducer => "RuntimeError"
  | .hasProducer => "RuntimeError"
  | .assertion => "AssertionError"
  | .alreadyClosed => "RuntimeError"
  | .saveToClosed => "RuntimeError"

/-- one instruction of a producer script -/
inductive PInstr where
  | pull (g : Nat)          -- `next()` on the g-th `_read` generator (a StopIteration is absorbed, like `_fetch_chunk` does)
  | yield                   -- yield the next message
  | raise (e : Nat)         -- raise the injected exception `e`
deriving Repr, DecidableEq, Inhabited

/-- a `SaverSpy` around a `strax.Saver` with fault injection -/
structure Spy where
  closed : Bool := false
  saved : Nat := 0                 -- `chunk_number`
  failSave : Option Nat := none    -- `saver.save` raises at this chunk number
  failClose : Bool := false        -- `saver._close()` raises (after `closed = True`)
  exc : Nat := 0                   -- identity of the injected exception
deriving Repr, DecidableEq, Inhabited

structure Topic where
  id : Nat
  saved : List Nat := []           -- message numbers in `_saved_mail[topic]`
  spies : List Spy := []
  produced : Nat := 0              -- `_last_msg_produced[topic] + 1`
  readers : List (Nat × Nat) := []  -- reader ↦ `_last_msg_read[topic][reader] + 1`
  done : List Nat := []            -- `_readers_done[topic]`
  exhausted : Bool := false
  producer : Option Nat := none    -- `_producers[topic]` (index of the generator)
  multi : Option (List Nat) := none -- `_multi_output_topics[topic]`
deriving Repr, DecidableEq, Inhabited

/-- a producer generator -/
structure Producer where
  script : List PInstr
  yielded : Nat := 0
  finished : Bool := false
deriving Repr, DecidableEq, Inhabited

/-- a `_read(topic, reader)` generator: `next` = the `msg_number` it asks for at its next `next()` -/
structure Gen where
  topic : Nat
  reader : Nat
  next : Nat := 0
  finished : Bool := false
deriving Repr, DecidableEq, Inhabited

structure PO where
  topics : List Topic := []        -- in registration order (the order of the dicts `_saved_mail`, `_spies`)
  producers : List Producer := []
  gens : List Gen := []
  log : List Exc := []             -- ghost: every exception raised so far, in order
deriving Repr, DecidableEq, Inhabited

inductive Res where
  | msg (v : Nat)
  | stop                          -- StopIteration
  | raised (e : Exc)
  | fuel
deriving Repr, DecidableEq, Inhabited

/-! ### dictionaries -/

def PO.topic? (po : PO) (t : Nat) : Option Topic := po.topics.find? (fun x => x.id == t)

def modTopics (f : Topic → Topic) (t : Nat) : List Topic → List Topic
  | [] => []
  | x :: r => if x.id == t then f x :: r else x :: modTopics f t r

def PO.modTopic (po : PO) (t : Nat) (f : Topic → Topic) : PO := { po with topics := modTopics f t po.topics }

/-- `_register_topic` -/
def PO.registerTopic (po : PO) (t : Nat) : PO :=
  match po.topic? t with
  | some _ => po
  | none => { po with topics := po.topics ++ [{ id := t }] }

def PO.raise (po : PO) (e : Exc) : PO := { po with log := po.log ++ [e] }

def setReader (r n : Nat) : List (Nat × Nat) → List (Nat × Nat)
  | [] => [(r, n)]
  | x :: rest => if x.1 == r then (r, n) :: rest else x :: setReader r n rest

def minCount : List (Nat × Nat) → Nat
  | [] => 0
  | [x] => x.2
  | x :: y :: r => min x.2 (minCount (y :: r))

/-! ### registration (`register_producer`, `register_spy`, `get_iter`) -/

/-- the single-topic tail of `register_producer` -/
def PO.registerSingle (po : PO) (p t : Nat) : Except Exc PO :=
  match po.topic? t with
  | some tp =>
    if tp.producer.isSome then .error .hasProducer
    else .ok (po.modTopic t fun x => { x with producer := some p })
  | none => .ok ((po.registerTopic t).modTopic t fun x => { x with producer := some p })

/-- `self._multi_output_topics[sub_topic] = topic` (the topic itself is registered a moment later) -/
def PO.registerTopicMulti (po : PO) (sub : Nat) (all : List Nat) : PO :=
  (po.registerTopic sub).modTopic sub fun x => { x with multi := some all }

def PO.registerSubs (po : PO) (p : Nat) (all : List Nat) (registered : List Nat) : List Nat → Except Exc PO
  | [] => .ok po
  | sub :: rest =>
    if registered.contains sub then PO.registerSubs po p all registered rest
    else
      -- `_multi_output_topics[sub] = topic` happens before the recursive call can raise
      match (po.registerTopicMulti sub all).registerSingle p sub with
      | .error e => .error e
      | .ok po' => PO.registerSubs po' p all registered rest

/-- `register_producer(iterator, topic, registered)`; the new generator gets the next index -/
def PO.registerProducer (po : PO) (script : List PInstr) (topics : List Nat) (registered : List Nat) : Except Exc PO :=
  let p := po.producers.length
  let po1 := { po with producers := po.producers ++ [{ script := script }] }
  match topics with
  | [t] => po1.registerSingle p t
  | ts => PO.registerSubs po1 p ts registered ts

/-- `register_spy` -/
def PO.registerSpy (po : PO) (t : Nat) (spy : Spy) : PO :=
  (po.registerTopic t).modTopic t fun x => { x with spies := x.spies ++ [spy] }

/-- `get_iter(topic, reader)`: the new `_read` generator gets the next index -/
def PO.getIter (po : PO) (t r : Nat) : PO :=
  let po1 := (po.registerTopic t).modTopic t fun x => { x with readers := setReader r 0 x.readers }
  { po1 with gens := po1.gens ++ [{ topic := t, reader := r }] }

/-! ### spies -/

/-- `SaverSpy.receive(chunk)` → `saver.save(chunk, chunk_number)` -/
def Spy.receive (s : Spy) : Except Exc Spy :=
  if s.closed then .error .saveToClosed
  else if s.failSave = some s.saved then .error (.inj s.exc)
  else .ok { s with saved := s.saved + 1 }

/-- `SaverSpy.close()` → `saver.close()`: the spy afterwards, and the exception if one is raised -/
def Spy.close (s : Spy) : Spy × Option Exc :=
  if s.closed then (s, some .alreadyClosed)
  else if s.failClose then ({ s with closed := true }, some (.inj s.exc))
  else ({ s with closed := true }, none)

/-- `for spy in spies: spy.receive(msg)` — stops at the first exception -/
def receiveAll : List Spy → List Spy × Option Exc
  | [] => ([], none)
  | s :: rest =>
    match s.receive with
    | .error e => (s :: rest, some e)
    | .ok s' =>
      let (rest', e) := receiveAll rest
      (s' :: rest', e)

/-- `for spy in spies: spy.close()` — stops at the first exception -/
def closeAll : List Spy → List Spy × Option Exc
  | [] => ([], none)
  | s :: rest =>
    match s.close with
    | (s', some e) => (s' :: rest, some e)
    | (s', none) =>
      let (rest', e) := closeAll rest
      (s' :: rest', e)

/-- `kill_spies()`: `for spies in self._spies.values(): for spy in spies: spy.kill(reason)` with `Spy.kill = close` -/
def killTopics : List Topic → List Topic × Option Exc
  | [] => ([], none)
  | t :: rest =>
    match closeAll t.spies with
    | (sp, some e) => ({ t with spies := sp } :: rest, some e)
    | (sp, none) =>
      let (rest', e) := killTopics rest
      ({ t with spies := sp } :: rest', e)

def PO.killSpies (po : PO) : PO × Option Exc :=
  match killTopics po.topics with
  | (ts, some e) => (({ po with topics := ts } : PO).raise e, some e)
  | (ts, none) => ({ po with topics := ts }, none)

/-! ### the acknowledgements -/

/-- `_ack_msg_produced(msg, topic)` -/
def PO.ackProduced (po : PO) (t : Nat) : PO × Option Exc :=
  match po.topic? t with
  | none => (po.raise .assertion, some .assertion)          -- KeyError in the code; unreachable (topics are registered)
  | some tp =>
    if tp.exhausted then (po.raise .assertion, some .assertion)
    else
      let n := tp.produced
      let saved := if tp.readers.isEmpty then tp.saved else tp.saved ++ [n]
      let (sp, e) := receiveAll tp.spies
      let po1 := po.modTopic t fun x => { x with produced := n + 1, saved := saved, spies := sp }
      match e with
      | some e => (po1.raise e, some e)
      | none => (po1, none)

/-- `_ack_topic_exhausted(topic)` -/
def PO.ackExhausted (po : PO) (t : Nat) : PO × Option Exc :=
  match po.topic? t with
  | none => (po.raise .assertion, some .assertion)
  | some tp =>
    match closeAll tp.spies with
    | (sp, some e) => ((po.modTopic t fun x => { x with spies := sp }).raise e, some e)
    | (sp, none) => (po.modTopic t fun x => { x with spies := sp, exhausted := true }, none)

def PO.ackExhaustedAll (po : PO) : List Nat → PO × Option Exc
  | [] => (po, none)
  | t :: rest =>
    match po.ackExhausted t with
    | (po1, some e) => (po1, some e)
    | (po1, none) => PO.ackExhaustedAll po1 rest

/-- `_ack_reader_recieved(reader, topic, msg_number)` -/
def PO.ackReceived (po : PO) (t r n : Nat) : PO × Option Exc :=
  match po.topic? t with
  | none => (po.raise .assertion, some .assertion)
  | some tp =>
    match tp.readers.find? (fun x => x.1 == r) with
    | none => (po.raise .assertion, some .assertion)
    | some (_, c) =>
      if c ≠ n then (po.raise .assertion, some .assertion)
      else
        let readers := setReader r (n + 1) tp.readers
        let everyone := minCount readers            -- `everyone_got + 1`
        (po.modTopic t fun x => { x with readers := readers, saved := x.saved.filter (fun m => decide (everyone ≤ m)) }, none)

/-- the end of `_read`: `_readers_done[topic].append(reader)` and the final assertion -/
def PO.readerDone (po : PO) (t r : Nat) : PO × Option Exc :=
  match po.topic? t with
  | none => (po.raise .assertion, some .assertion)
  | some tp =>
    let done := tp.done ++ [r]
    let po1 := po.modTopic t fun x => { x with done := done }
    if done.length == tp.readers.length && !tp.saved.isEmpty then (po1.raise .assertion, some .assertion)
    else (po1, none)

def PO.setProducer (po : PO) (p : Nat) (pr : Producer) : PO := { po with producers := po.producers.set p pr }
def PO.setGen (po : PO) (g : Nat) (gn : Gen) : PO := { po with gens := po.gens.set g gn }

/-! ### the pull machine -/

/-- `for sub_msg_topic, sub_msg in msg.items(): if sub_msg_topic in self._multi_output_topics: _ack_msg_produced` -/
def ackSubs (po : PO) : List Nat → PO × Option Exc
  | [] => (po, none)
  | s :: rest =>
    match po.topic? s with
    | some tp =>
      if tp.multi.isSome then
        match po.ackProduced s with
        | (po1, some e) => (po1, some e)
        | (po1, none) => ackSubs po1 rest
      else ackSubs po rest
    | none => ackSubs po rest

mutual
/-- `next(producer p)` -/
def runProducer : Nat → PO → Nat → PO × Res
  | 0, po, _ => (po, .fuel)
  | f + 1, po, p =>
    match po.producers[p]? with
    | none => (po, .stop)
    | some pr =>
      if pr.finished then (po, .stop)
      else
        match pr.script with
        | [] => (po.setProducer p { pr with finished := true }, .stop)
        | .yield :: rest => (po.setProducer p { pr with script := rest, yielded := pr.yielded + 1 }, .msg pr.yielded)
        | .raise e :: rest =>
          ((po.setProducer p { pr with script := rest, finished := true }).raise (.inj e), .raised (.inj e))
        | .pull g :: rest =>
          match readNext f (po.setProducer p { pr with script := rest }) g with
          | (po1, .raised e) =>
            -- the exception leaves the generator: it is finished from now on
            (match po1.producers[p]? with
             | some pr1 => po1.setProducer p { pr1 with finished := true }
             | none => po1, .raised e)
          | (po1, .fuel) => (po1, .fuel)
          | (po1, _) => runProducer f po1 p

/-- `_fetch_new(topic)`: message, `.stop` (the topic is exhausted) or an exception -/
def fetchNew : Nat → PO → Nat → PO × Res
  | 0, po, _ => (po, .fuel)
  | f + 1, po, t =>
    match po.topic? t with
    | none => (po.raise .noProducer, .raised .noProducer)
    | some tp =>
      match tp.producer with
      | none => (po.raise .noProducer, .raised .noProducer)
      | some p =>
        match runProducer f po p with
        | (po1, .stop) =>
          (match po1.ackExhaustedAll (tp.multi.getD [t]) with
           | (po2, some e) => (po2, .raised e)
           | (po2, none) => (po2, .stop))
        | (po1, .msg v) =>
          (match tp.multi with
           | none =>
             match po1.ackProduced t with
             | (po2, some e) => (po2, .raised e)
             | (po2, none) => (po2, .msg v)
           | some subs =>
             -- `for sub_msg_topic, sub_msg in msg.items(): if sub_msg_topic in self._multi_output_topics: ack`
             match ackSubs po1 subs with
             | (po2, some e) => (po2, .raised e)
             | (po2, none) => (po2, .msg v))
        | (po1, r) => (po1, r)

/-- `next(g)` on a `_read` generator -/
def readNext : Nat → PO → Nat → PO × Res
  | 0, po, _ => (po, .fuel)
  | f + 1, po, g =>
    match po.gens[g]? with
    | none => (po, .stop)
    | some gn =>
      if gn.finished then (po, .stop)
      else
        let t := gn.topic
        let n := gn.next
        let fin (po : PO) : PO × Res :=
          -- leaving the while loop: readers_done, the final assertion, StopIteration
          match (po.setGen g { gn with finished := true }).readerDone t gn.reader with
          | (po1, some e) => (po1, .raised e)
          | (po1, none) => (po1, .stop)
        -- `v` = the payload: a saved message carries its own number, a freshly fetched one whatever the producer
        -- yielded just now (a reader that subscribed late gets later payloads under earlier numbers)
        let got (po : PO) (v : Nat) : PO × Res :=
          match po.ackReceived t gn.reader n with
          | (po1, some e) => (po1.setGen g { gn with finished := true }, .raised e)
          | (po1, none) => (po1.setGen g { gn with next := n + 1 }, .msg v)
        match po.topic? t with
        | none => (po, .stop)
        | some tp =>
          if tp.exhausted && decide (tp.produced ≤ n) then fin po          -- `not _message_may_come`
          else if tp.saved.contains n then got po n                     -- found in the saved mail
          else
            match fetchNew f po t with
            | (po1, .stop) => fin po1
            | (po1, .msg v) => got po1 v
            | (po1, .raised e) => (po1.setGen g { gn with finished := true }, .raised e)
            | (po1, .fuel) => (po1, .fuel)
end

/-! ### `SingleThreadProcessor.iter` -/

/-- what the caller of the processor's generator sees at the end -/
inductive Outcome where
  | finished (got : List Nat)                -- the generator ended normally after delivering these messages
  | raised (e : Exc) (context : Option Exc)  -- an exception reached the caller (`context` = its `__context__`)
  | closed (got : List Nat)                  -- the caller closed the generator (nothing is raised to it)
  | fuel
deriving Repr, DecidableEq, Inhabited

/-- the `except Exception: kill_spies(); raise` handler -/
def PO.epilogue (po : PO) (e : Exc) : PO × Outcome :=
  match po.killSpies with
  | (po1, some e') => (po1, .raised e' (some e))
  | (po1, none) => (po1, .raised e none)

/-- what the consumer of the final generator does -/
inductive Consumer where
  | drain                       -- iterate to the end
  | throwAt (k : Nat) (e : Nat)  -- after k messages throw the injected exception `e` into the generator
  | closeAt (k : Nat)           -- after k messages call `.close()`
deriving Repr, DecidableEq, Inhabited

/-- `SingleThreadProcessor.iter()` driven by a consumer; `g` is the `_read(target, "FINAL")` generator.
`throw`/`close` arrive at the `yield` inside `yield from final_generator`; `_read` has no handler there, so the
exception goes straight to the processor's `except`: `Exception` → `kill_spies(); raise`, `GeneratorExit` →
`kill_spies()` inside the dummy `RuntimeError` handler, then the generator ends. -/
def procIter (fuel : Nat) (po : PO) (g : Nat) (c : Consumer) : Nat → List Nat → PO × Outcome
  | 0, _ => (po, .fuel)
  | k + 1, got =>
    let stopNow : Option (PO × Outcome) :=
      match c with
      | .throwAt n e =>
        if got.length = n ∧ n ≠ 0 then some ((po.raise (.inj e)).epilogue (.inj e)) else none
      | .closeAt n =>
        if got.length = n ∧ n ≠ 0 then
          some (match po.killSpies with
                | (po1, some e') => (po1, .raised e' none)
                | (po1, none) => (po1, .closed got))
        else none
      | .drain => none
    match stopNow with
    | some r => r
    | none =>
      match readNext fuel po g with
      | (po1, .msg v) => procIter fuel po1 g c k (got ++ [v])
      | (po1, .stop) => (po1, .finished got)
      | (po1, .raised e) => po1.epilogue e
      | (po1, .fuel) => (po1, .fuel)

def PO.allSpies (po : PO) : List Spy := po.topics.flatMap (·.spies)

end Strax.PostOffice
