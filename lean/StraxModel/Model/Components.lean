import StraxModel.Model.Basic
/-
  T8 (part) — `Context.get_components` and its inner `check_cache` (strax/context.py), the code that
  decides what is loaded, what is computed and what is saved for one request.

  The model mirrors the control flow of the code as it exists:
    * `resolve`        = `_get_plugins` (every type in the closure of the targets needs a provider: KeyError)
    * `checkCache`     = `check_cache(target_i)`: the `seen` guard, the loader lookup over the frontends sorted
                         by storage type, the time-range × `save_when > EXPLICIT` error, the two
                         `forbid_creation_of` errors, the recursion into `depends_on`, and then the saver part
    * `saverStep`      = the tail of `check_cache` (`_temp_` prefix, first `_target_should_be_saved`, the
                         multi-output branch, the five "partial request" early returns, the loop over
                         `set([target_i] + provides)` with the loadable / should-save / already-has-saver tests)
    * `addSaver`       = `_add_saver` (writable frontends that accept the type, in sorted order; no entry when none)
    * `finish`         = the "both computed and loaded" check and the choice of the final target(s).
  Data types are strings, a frontend is (readonly, take_only, exclude, storage_type) plus three lists that say
  what `find` can see in it: completely written under the exact key / only as `*_temp` directory (visible with
  `allow_incomplete`) / only under a lineage that matches fuzzily (visible with `fuzzy_for[_options]`).
  Out of scope (not modelled): superruns / `combining` / `chunk_number`.
-/
namespace Strax.Components
open Strax

/-- `strax.SaveWhen` (an IntEnum): the numeric order matters for `save_when > SaveWhen.EXPLICIT`. -/
inductive SaveWhen where
  | never | explicit | target | always
deriving DecidableEq, Repr, Inhabited

def SaveWhen.toNat : SaveWhen → Nat
  | .never => 0
  | .explicit => 1
  | .target => 2
  | .always => 3

/-- One plugin class: its outputs with the per-output save policy, and what it depends on. -/
structure Plugin where
  outputs : List (String × SaveWhen)
  dependsOn : List String
deriving Repr, DecidableEq, Inhabited

def Plugin.provides (p : Plugin) : List String := p.outputs.map (·.1)

/-- `Plugin.multi_output = len(provides) > 1` -/
def Plugin.multiOutput (p : Plugin) : Bool := decide (p.provides.length > 1)

/-- `plugin.save_when[t]` -/
def Plugin.policy (p : Plugin) (t : String) : Option SaveWhen :=
  (p.outputs.find? (fun o => o.1 == t)).map (·.2)

abbrev Graph := List Plugin

/-- the plugin registered for a data type -/
def pluginFor (g : Graph) (t : String) : Option Plugin :=
  g.find? (fun p => p.provides.contains t)

/-- `TEMP_DATA_TYPE_PREFIX` -/
def tempPrefix : String := "_temp_"
def isTemp (t : String) : Bool := tempPrefix.toList.isPrefixOf t.toList

/-- request modifiers that make a request partial -/
structure Modifiers where
  timeRange : Bool := false
  selection : Bool := false
  columns : Bool := false       -- keep_columns or drop_columns given
deriving Repr, DecidableEq, Inhabited

/-- context options read by `get_components` -/
structure CtxOpts where
  fuzzy : Bool := false            -- `fuzzy_for` or `fuzzy_for_options` non-empty
  allowIncomplete : Bool := false
  forbid : List String := []       -- `forbid_creation_of`
deriving Repr, DecidableEq, Inhabited

structure Frontend where
  readonly : Bool := false
  takeOnly : List String := []
  exclude : List String := []
  storageType : Nat := 1
  complete : List String := []
  incomplete : List String := []
  stale : List String := []
deriving Repr, DecidableEq, Inhabited

/-- `StorageFrontend._we_take` -/
def Frontend.weTake (f : Frontend) (t : String) : Bool :=
  !(f.exclude.contains t || (!f.takeOnly.isEmpty && !f.takeOnly.contains t))

/-- does `sf.find(key, **_find_options)` succeed -/
def Frontend.finds (f : Frontend) (o : CtxOpts) (t : String) : Bool :=
  f.weTake t && (f.complete.contains t || (o.allowIncomplete && f.incomplete.contains t)
                 || (o.fuzzy && f.stale.contains t))

/-- insert keeping the order by storage type, after all entries with an equal storage type (stable) -/
def insertByType (x : Nat × Frontend) : List (Nat × Frontend) → List (Nat × Frontend)
  | [] => [x]
  | y :: ys => if x.2.storageType < y.2.storageType then x :: y :: ys else y :: insertByType x ys

/-- `_sorted_storage`: `sorted(self.storage, key=storage_type)` (stable); every frontend keeps its index
in `context.storage` -/
def sortedStorage (fs : List Frontend) : List (Nat × Frontend) :=
  (fs.zipIdx.map fun (f, i) => (i, f)).foldl (fun acc x => insertByType x acc) []

/-- Two details of `get_components` concerning the temporary merge plugin `_temp_<hash>` that `get_iter`
creates for several same-kind targets.  The code as it is now (after the `fix:` commits for D22 and D23) has
both set; the translator re-reads them from the current source (`Generated.rules`); the theorems of C11 hold
for either value, `Props/C11` keeps `…_old_counterexample`s for the old rules.
  * `tempDepsAreTargets`: `_target_should_be_saved` is given `final_targets` (every `_temp_` target replaced
    by its `depends_on`) instead of `targets`  (false = defect D22: TARGET-policy types requested together
    were not saved);
  * `starSkipsTemp`: the `"*" in forbid_creation_of` test skips `_temp_` types (false = defect D23). -/
structure Rules where
  tempDepsAreTargets : Bool := true
  starSkipsTemp : Bool := true
deriving Repr, DecidableEq, Inhabited

structure Env where
  g : Graph
  fs : List Frontend
  targets : List String
  save : List String
  mods : Modifiers
  opts : CtxOpts
  rules : Rules := {}
deriving Repr, Inhabited

/-- the targets as far as the TARGET save policy is concerned -/
def finalTargets (env : Env) : List String :=
  if env.rules.tempDepsAreTargets then
    env.targets.flatMap fun t =>
      if isTemp t then (match pluginFor env.g t with
                        | some p => p.dependsOn
                        | none => [])
      else [t]
  else env.targets

/-- `"*" in forbid_creation_of` applies to data type `t` -/
def starForbids (env : Env) (t : String) : Bool :=
  env.opts.forbid.contains "*" && !(env.rules.starSkipsTemp && isTemp t)

/-- `_get_partial_loader_for`: index of the first frontend (fastest first) in which the key is found -/
def loaderFor (env : Env) (t : String) : Option Nat :=
  ((sortedStorage env.fs).find? fun x => x.2.finds env.opts t).map (·.1)

def loadable (env : Env) (t : String) : Bool := (loaderFor env t).isSome

/-- the frontends `_add_saver` gets a saver from: not readonly and accepting the type, in sorted order -/
def writableFor (env : Env) (t : String) : List Nat :=
  ((sortedStorage env.fs).filter fun x => !x.2.readonly && x.2.weTake t).map (·.1)

/-- the request is partial / fuzzy / tolerant of incomplete data: nothing may be saved -/
def Env.partialReq (env : Env) : Bool :=
  env.mods.timeRange || env.mods.selection || env.mods.columns || env.opts.fuzzy || env.opts.allowIncomplete

/-- `Context._target_should_be_saved` as a table (the translator regenerates the same function from the
source as `Generated.shouldSave`; `Props/C11.gen_eq_model` proves them equal) -/
def shouldSave (pol : SaveWhen) (inTargets inSave : Bool) : Except Err Bool :=
  match pol with
  | .never => if inSave then .error .valueError else .ok false
  | .target => .ok inTargets
  | .explicit => .ok inSave
  | .always => .ok true

def shouldSaveFor (env : Env) (p : Plugin) (d : String) : Except Err Bool :=
  match p.policy d with
  | none => .error .keyError
  | some pol => shouldSave pol ((finalTargets env).contains d) (env.save.contains d)

abbrev Savers := List (String × List Nat)

/-- `savers.get(d)` is truthy (entries are only ever created non-empty) -/
def hasSaver (sv : Savers) (d : String) : Bool := sv.any (fun e => e.1 == d)

/-- `_add_saver`: an entry is made only if at least one frontend gives a saver -/
def addSaver (env : Env) (sv : Savers) (d : String) : Savers :=
  match writableFor env d with
  | [] => sv
  | w :: ws => sv ++ [(d, w :: ws)]

/-- the loop `for d_to_save in data_type_to_save` (Python iterates a set: the order is arbitrary, but the
resulting key set and the kind of a raised error do not depend on it) -/
def saverLoop (env : Env) (p : Plugin) : List String → Savers → Except Err Savers
  | [], sv => .ok sv
  | d :: ds, sv =>
    if loadable env d then saverLoop env p ds sv
    else
      match shouldSaveFor env p d with
      | .error e => .error e
      | .ok should =>
        if !should || hasSaver sv d then
          -- `assert target_plugin.multi_output`
          if p.multiOutput then saverLoop env p ds sv else .error .assertionError
        else saverLoop env p ds (addSaver env sv d)

structure St where
  seen : List String := []
  loaders : List (String × Nat) := []
  compute : List String := []
  savers : Savers := []
deriving Repr, DecidableEq, Inhabited

/-- the part of `check_cache` after the recursion, for a type that is not loaded -/
def saverStep (env : Env) (p : Plugin) (t : String) (st : St) : Except Err St :=
  if isTemp t then .ok st
  else
    match shouldSaveFor env p t with
    | .error e => .error e
    | .ok should =>
      if !should && !p.multiOutput then .ok st
      else if env.partialReq then .ok st
      else
        -- data_type_to_save = set(current_plugin_to_savers + provides) = set(provides), as t ∈ provides
        match saverLoop env p p.provides st.savers with
        | .error e => .error e
        | .ok sv => .ok { st with savers := sv }

def foldDeps (f : String → St → Except Err St) : List String → St → Except Err St
  | [], st => .ok st
  | d :: ds, st =>
    match f d st with
    | .error e => .error e
    | .ok st' => foldDeps f ds st'

/-- `check_cache`.  The fuel only bounds the recursion depth (Python: RecursionError, a RuntimeError);
because of the `seen` guard the depth never exceeds the number of data types. -/
def checkCache (env : Env) : Nat → String → St → Except Err St
  | 0, _, _ => .error .runtimeError
  | fuel + 1, t, st =>
    if st.seen.contains t then .ok st
    else
      let st := { st with seen := t :: st.seen }
      match pluginFor env.g t with
      | none => .error .keyError
      | some p =>
        match loaderFor env t with
        | some i => .ok { st with loaders := st.loaders ++ [(t, i)] }
        | none =>
          match p.policy t with
          | none => .error .keyError
          | some pol =>
            if env.mods.timeRange && decide (pol.toNat > SaveWhen.explicit.toNat) then .error .dataNotAvailable
            else if starForbids env t then .error .dataNotAvailable
            else if env.opts.forbid.contains t then .error .dataNotAvailable
            else
              let st := { st with compute := st.compute ++ [t] }
              match foldDeps (checkCache env fuel) p.dependsOn st with
              | .error e => .error e
              | .ok st => saverStep env p t st

def resolveAll (f : String → Except Err Unit) : List String → Except Err Unit
  | [] => .ok ()
  | d :: ds =>
    match f d with
    | .error e => .error e
    | .ok () => resolveAll f ds

/-- `_get_plugins` / `__get_plugin`: every data type in the dependency closure of the targets needs a
registered provider (KeyError); the recursion over `depends_on` is unguarded (RecursionError on cycles) -/
def resolve (g : Graph) : Nat → String → Except Err Unit
  | 0, _ => .error .runtimeError
  | fuel + 1, t =>
    match pluginFor g t with
    | none => .error .keyError
    | some p => resolveAll (resolve g fuel) p.dependsOn

structure Components where
  loaders : List (String × Nat)
  plugins : List String
  savers : Savers
  /-- for one requested target: that target; for several: every requested target that is a computed end
  point and not loaded (Python subscribes an arbitrary one of them: `tuple(set)[:1]`) -/
  targets : List String
deriving Repr, DecidableEq, Inhabited

def allTypes (g : Graph) : List String := g.flatMap (·.provides)

/-- `_get_end_targets(plugins)`: provided by a running plugin and not depended on by a running plugin -/
def endTargets (g : Graph) (compute : List String) : List String :=
  let ps := compute.filterMap (pluginFor g)
  let prov := ps.flatMap (·.provides)
  let deps := ps.flatMap (·.dependsOn)
  prov.filter fun t => !deps.contains t

def finish (env : Env) (st : St) : Except Err Components :=
  if st.compute.any (fun t => st.loaders.any (fun l => l.1 == t)) then .error .runtimeError
  else
    let final :=
      if env.targets.length > 1 then
        let ends := endTargets env.g st.compute
        env.targets.eraseDups.filter fun t => ends.contains t && !st.loaders.any (fun l => l.1 == t)
      else env.targets
    .ok ⟨st.loaders, st.compute, st.savers, final⟩

def fuelFor (g : Graph) : Nat := g.length + 1

def getComponents (env : Env) : Except Err Components :=
  if env.targets.any (fun t => t.length == 1) then .error .valueError
  else
    match resolveAll (resolve env.g (fuelFor env.g)) env.targets with
    | .error e => .error e
    | .ok () =>
      match foldDeps (checkCache env (fuelFor env.g)) env.targets {} with
      | .error e => .error e
      | .ok st => finish env st

/-! ### Specification vocabulary (used by the theorems; independent of the traversal) -/

/-- `t` lies on a path from a target down to the nearest loadable types -/
inductive Reach (env : Env) : String → Prop where
  | target {t} : t ∈ env.targets → Reach env t
  | dep {t d p} : Reach env t → loadable env t = false → pluginFor env.g t = some p →
      d ∈ p.dependsOn → Reach env d

/-- Decidable acyclicity witness: the list order of the graph is a topological order (every dependency of
a plugin is provided by a plugin earlier in the list). -/
def topoOrderedFrom (earlier : List String) : Graph → Bool
  | [] => true
  | p :: rest => p.dependsOn.all earlier.contains && topoOrderedFrom (earlier ++ p.provides) rest

def topoOrdered (g : Graph) : Bool := topoOrderedFrom [] g

end Strax.Components
