import StraxModel.Model.Net
/-
  C13 over the networks of Model/Net.lean: the executable vocabulary of the rest bound along a path of the wiring
  (links, their static conditions, the bound).  The theorems are in Lemmas/NetBackpressure.lean and Props/C13Dag.lean;
  the driver evaluates `pathOk` / `pathBound` on the net that `wire` builds for a concrete plugin graph.
-/
namespace Strax.NetBP
open Strax Strax.Net

def cntRead (m i : Nat) (l : List Instr) : Nat := l.count (.read m i)
def cntOut (m : Nat) (l : List Instr) : Nat := l.count (.send m) + l.count (.close m)


def tails {α} : List α → List (List α)
  | [] => [[]]
  | x :: r => (x :: r) :: tails r


structure Link where
  t : Nat
  mi : Nat
  si : Nat
  mo : Nat
  lag : Nat
  lagR : Nat
deriving Repr, DecidableEq

/-- the static conditions on a link (decidable, evaluated by the driver on the wired net) -/
def linkOk (net : Net) (L : Link) : Bool :=
  match net.threads[L.t]? with
  | none => false
  | some th =>
    decide (L.mi ≠ L.mo) && decide (L.mo < net.mbs.length) &&
    (match net.mbs[L.mi]? with
     | some sp => decide (L.si < sp.drive.length)
     | none => false) &&
    th.body.all (fun i => match i with
      | .die _ => false
      | _ => true) &&
    (tails th.body).all (fun p =>
      decide (cntRead L.mi L.si th.body + cntOut L.mo p ≤ cntOut L.mo th.body + cntRead L.mi L.si p + L.lag) &&
      decide (cntOut L.mo th.body + cntRead L.mi L.si p ≤ cntRead L.mi L.si th.body + cntOut L.mo p + L.lagR)) &&
    decide (cntRead L.mi L.si th.epi = 0) && decide (cntOut L.mo th.epi = 0) &&
    (List.range net.threads.length).all fun u => u == L.t || match net.threads[u]? with
      | some tu => decide (cntRead L.mi L.si tu.body = 0) && decide (cntRead L.mi L.si tu.epi = 0) &&
                   decide (cntOut L.mo tu.body = 0) && decide (cntOut L.mo tu.epi = 0)
      | none => true


def capOf (net : Net) (m : Nat) : Nat :=
  match net.mbs[m]? with
  | some sp => sp.cap
  | none => 0

/-- the bound along a path that starts at mailbox `m`: two mailbox-fulls per mailbox, plus what the stages withhold
beyond one message -/
def pathBound (net : Net) (m : Nat) : List Link → Nat
  | [] => 2 * capOf net m
  | L :: r => 2 * capOf net m + L.lag - 1 + pathBound net L.mo r

def pathLagR : List Link → Nat
  | [] => 0
  | L :: r => L.lagR + pathLagR r

/-- a path: links chained mailbox to mailbox, every link ok, every capacity ≥ 1, ending at subscription (mk, sk) -/
def pathOk (net : Net) (m : Nat) (links : List Link) (mk sk : Nat) : Bool :=
  match links with
  | [] => decide (m = mk) && decide (1 ≤ capOf net m) &&
      (match net.mbs[mk]? with
       | some sp => decide (sk < sp.drive.length)
       | none => false)
  | L :: r => decide (L.mi = m) && linkOk net L && decide (1 ≤ capOf net m) && pathOk net L.mo r mk sk


/-- nobody but thread `c` reads subscription (mk, sk) -/
def soleReader (net : Net) (c mk sk : Nat) : Bool :=
  (List.range net.threads.length).all fun u => u == c || match net.threads[u]? with
    | some tu => decide (cntRead mk sk tu.body = 0) && decide (cntRead mk sk tu.epi = 0)
    | none => true


/-- messages handed to the reader of subscription (mk, sk) so far -/
def delivered (s : NState) (mk sk : Nat) : Nat :=
  match s.mbs[mk]? with
  | some a =>
    (match a.subs[sk]? with
     | some sb => sb.next - sb.buffered
     | none => 0)
  | none => 0

/-- messages put into mailbox m so far (the end marker of `close` is one of them) -/
def sentInto (s : NState) (m : Nat) : Nat :=
  match s.mbs[m]? with
  | some a => a.nSent
  | none => 0


/-! ### the lazy fetch gate at net level -/

/-- does instruction `i` concern the output side of mailbox `m`? -/
def outRel (m : Nat) (i : Instr) : Bool := i == .gate m || i == .send m || i == .close m

/-- the first instruction of a program that concerns the output side of mailbox `m` -/
def nextOut (m : Nat) : List Instr → Option Instr
  | [] => none
  | i :: r => if outRel m i then some i else nextOut m r

/-- the sender has passed the gate of `m` and not sent yet: the next thing it does to `m` is a `send` / `close` -/
def armed (m : Nat) (p : List Instr) : Bool :=
  match nextOut m p with
  | some (.send _) => true
  | some (.close _) => true
  | _ => false

/-- thread `t` is THE sender of mailbox `m` and goes through the gate of `m` before every message it puts into it
(static, decidable): the body does not start armed; after a `gate m` the next `m`-instruction is a send / close, after
a send / close it is not; nobody else sends into `m` -/
def senderOk (net : Net) (t m : Nat) : Bool :=
  match net.threads[t]? with
  | none => false
  | some th =>
    !armed m th.body &&
    (tails th.body).all (fun p => match p with
      | i :: r => (!(i == .gate m) || armed m r) && (!(i == .send m || i == .close m) || !armed m r)
      | [] => true) &&
    (List.range net.threads.length).all fun u => u == t || match net.threads[u]? with
      | some tu => decide (cntOut m tu.body = 0) && decide (cntOut m tu.epi = 0)
      | none => true

end Strax.NetBP
