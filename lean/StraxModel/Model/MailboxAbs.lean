import StraxModel.Model.Mailbox
/-
  The abstract state over which the scalar predicates of strax/mailbox.py are re-generated from the Python AST
  (checks/props/c05.py:regen -> Generated/MailboxGates.lean), the few Python built-ins those predicates use, and the
  abstraction `absSt : MB -> St` from the mailbox model to that state.  Hand-written; nothing here is generated.

  Vocabulary of the translator (`self.<attr>` -> field):
    `_mailbox` (only the message numbers, `[n for n, _ in self._mailbox]`)  -> `heap : List Nat`
    `_subscribers_have_read`  -> `haveRead : List Int`   (starts at -1)
    `_subscriber_waiting_for` -> `waitingFor : List (Option Nat)`
    `_subscriber_can_drive`   -> `canDrive : List Bool`
    `max_messages`            -> `maxMessages : Option Nat`   (`none` = `float("inf")`)
    `killed`, `lazy`          -> `killed`, `isLazy : Bool`
  Partial Python expressions (`self._mailbox[0][0]` on an empty buffer: IndexError; `min([])`: ValueError) are
  `Option`-valued, `none` = raises; `and` / `or` short-circuit as in Python.
-/
namespace Strax.MailboxAbs
open Strax Strax.Mailbox

structure St where
  heap : List Nat
  haveRead : List Int
  waitingFor : List (Option Nat)
  canDrive : List Bool
  maxMessages : Option Nat
  killed : Bool
  isLazy : Bool
deriving Repr, DecidableEq

/-- `heap[0][0]` of a `heapq`: the smallest number (heapq invariant, trusted); `none` = IndexError on an empty buffer -/
def lowest? : List Nat → Option Nat
  | [] => none
  | a :: r =>
    match lowest? r with
    | none => some a
    | some b => some (min a b)

/-- `min(xs)`; `none` = ValueError on an empty list -/
def pyMin? : List Int → Option Int
  | [] => none
  | a :: r =>
    match pyMin? r with
    | none => some a
    | some b => some (min a b)

/-- `min(xs, default=d)` -/
def pyMinD (d : Int) (xs : List Int) : Int := (pyMin? xs).getD d

/-- `n < max_messages` where `max_messages` may be `float("inf")` -/
def ltInf (n : Nat) : Option Nat → Bool
  | none => true
  | some c => decide (n < c)

/-- `n <= max_messages` where `max_messages` may be `float("inf")` -/
def leInf (n : Nat) : Option Nat → Bool
  | none => true
  | some c => decide (n ≤ c)

/-- `heapq.heappop(heap)` on the numbers: remove (one occurrence of) the smallest -/
def heappop (heap : List Nat) : List Nat :=
  match lowest? heap with
  | none => heap
  | some m => heap.erase m

/-- `while <test>: heapq.heappop(self._mailbox)` with the loop test as a function of the buffer (fuel = buffer size);
a test that raises (`none`) stops the loop — the obligations in Props/C05Gates.lean show it never does -/
def popWhile (test : List Nat → Option Bool) : Nat → List Nat → List Nat
  | 0, heap => heap
  | fuel + 1, heap =>
    match test heap with
    | some true => popWhile test fuel (heappop heap)
    | _ => heap

/-- the abstraction: what the generated predicates see of a model mailbox (`have_read = next - 1`) -/
def absSt (mb : MB) : St :=
  { heap := mb.heap.map (·.1),
    haveRead := mb.subs.map (fun sub => (sub.next : Int) - 1),
    waitingFor := mb.subs.map (·.waitingFor),
    canDrive := mb.subs.map (·.canDrive),
    maxMessages := mb.cap,
    killed := mb.killed,
    isLazy := mb.lazy }

end Strax.MailboxAbs
