import StraxModel.Model.Overlap
/-
  Property C09, round 5 (model part, Mathlib-free: used by the driver ops `c09.getwin` / `c09.bounds`).

  * `windowResult d` = what `_get_window_size` answers on `get_window_size() = d`, read off the model (`windowOf` + the
    test at the head of `doCompute`); Props/C09.lean proves it equal to the definition regenerated from the Python source.
  * `specDecl` / `runOverlapDecl`: a single-output plugin whose `get_window_size()` returns any `WindowDecl` (number,
    tuple / list of two, anything else), exactly as the driver op `c09.win` builds it.
  * `invalidBeyond` / `cacheInputsBeyond`: the two boundary formulas of `do_compute` by name, and `boundsLoop`, the
    `iterLoop` that records them call by call (what the real plugin hands to `cache_beyond`).
-/
namespace Strax.Overlap
open Strax

/-- the test at the head of `doCompute`: illegal form, or a two-element form with a negative element -/
def windowCheck (wl wr : Int) (ok sign : Bool) : Bool := !ok || (sign && (decide (wl < 0) || decide (wr < 0)))

/-- `_get_window_size` as the model has it: `windowOf d` and the test `doCompute` makes on it -/
def windowResult (d : WindowDecl) : Except Err (Int × Int) :=
  match windowOf d with
  | (wl, wr, ok, sign) => if windowCheck wl wr ok sign then .error .valueError else .ok (wl, wr)

/-- the single-output plugin computing `f` whose `get_window_size()` returns `d` -/
def specDecl (f : List Row → List Row) (d : WindowDecl) (rid : String) : Spec :=
  { spec1 f ((windowOf d).1, (windowOf d).2.1) rid with declOK := (windowOf d).2.2.1, signCheck := (windowOf d).2.2.2 }

/-- `runOverlap` for a plugin declaring its window as `d` -/
def runOverlapDecl (f : List Row → List Row) (d : WindowDecl) (chunks : List Chunk) : Except Err (List Chunk) :=
  match chunks with
  | [] => .error .valueError
  | c :: _ =>
    match c.runId with
    | none => .error .other
    | some rid =>
      match runDicts (specDecl f d rid) c.kind chunks with
      | .error e => .error e
      | .ok ds => mapE single ds

/-- `invalid_beyond = int(end − 2·window_size[1] − 1)`: results ending later are withheld -/
def invalidBeyond (stop wr : Int) : Int := stop - 2 * wr - 1

/-- `cache_inputs_beyond = int(sent_until − 2·window_size[0] − 1)`: input rows ending by then are dropped -/
def cacheInputsBeyond (sentUntil wl : Int) : Int := sentUntil - 2 * wl - 1

/-- `iterLoop`, recording for every call of `do_compute` the pair (`invalid_beyond`, `cache_inputs_beyond`) — the
`prev_split` arguments of the two `cache_beyond` calls of a multi-output plugin -/
def boundsLoop (P : Spec) (kind : String) (st : State) (buf : Chunk) (rest : List Chunk) :
    Except Err (List (Int × Int)) :=
  match buf.split buf.stop true with
  | .error e => .error e
  | .ok (inp, buf') =>
    match doCompute P st [(kind, inp)] with
    | .error e => .error e
    | .ok (_, st') =>
      let b := (invalidBeyond inp.stop P.wr, cacheInputsBeyond st'.sentUntil P.wl)
      match rest with
      | [] => if P.strict && !buf'.rows.isEmpty then .error .runtimeError else .ok [b]
      | c :: rest' =>
        match concatenate [buf', c] false with
        | .error e => .error e
        | .ok buf'' =>
          match boundsLoop P kind st' buf'' rest' with
          | .error e => .error e
          | .ok bs => .ok (b :: bs)

def runBounds (P : Spec) (kind : String) (chunks : List Chunk) : Except Err (List (Int × Int)) :=
  match chunks with
  | [] => .error .valueError
  | c :: rest => boundsLoop P kind State.init c rest

end Strax.Overlap
