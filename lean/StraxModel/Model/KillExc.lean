import StraxModel.Model.Mailbox
import StraxModel.Model.Net
/-
  Round 5 (C06): `Mailbox.kill`'s reason bookkeeping and `Mailbox.kill_from_exception` in the vocabulary of the two
  mailbox models.  `MB.kill` (Model/Mailbox.lean) has the flags and the wake-ups, `AMB.kill` (Model/Net.lean) the reason
  ("the first reason wins"); a thread of the net holds its exception as `(own, e)`: `own = false` means it is handling
  `MailboxKilled(e)` taken from a killed mailbox.  Tied to the real code by `c06.kill` (component
  `mailbox/kill-bookkeeping`) and to the SOURCE by `Generated/MailboxKill.lean` (`Props/C06.lean`, `generated_*`).
-/
namespace Strax.Net
open Strax

/-- default of `kill(upstream=…)` and of `kill_from_exception(reraise=…)` -/
def killUpstreamDefault : Bool := true
def killReraiseDefault : Bool := true

/-- `killed_because` after `kill(reason=r)` on a mailbox whose `killed` flag is `killed`: a second kill is a NOP -/
def killReason {R : Type} (killed : Bool) (old r : Option R) : Option R := if killed then old else r

/-- `Mailbox.kill_from_exception(e, reraise)` by a thread holding `(own, e)`: always `kill(upstream=True)` with reason `e`
(the payload of `MailboxKilled`, or the thread's own exception); `e` is re-raised only if it is the thread's own -/
def killFromException (a : AMB) (own : Bool) (e : Exc) (reraise : Bool) : AMB × Bool := (a.kill e, own && reraise)

end Strax.Net
