import StraxModel.Model.Chunk
/-
  Theory T10 "Selection" (property C10): loading a time range of stored data and applying the
  time / row / column selections of `Context.get_iter`.

  Mirrors, as the code is now:

  * `StorageBackend.loader` (strax/storage/common.py): `ValueError` when the metadata lists no
    chunk; chunk pruning `chunk_info["end"] <= time_range[0] or time_range[1] <= chunk_info["start"]`;
    `apply_time_range`:
        if chunk.start < time_range[0]: _, chunk = chunk.split(t=time_range[0], allow_early_split=True)
        if chunk.end > time_range[1]:
            try: chunk, _ = chunk.split(t=time_range[1], allow_early_split=False)
            except CannotSplit: pass
  * `strax.apply_selection` (strax/utils.py): keep∧drop → `ValueError`; `fully_contained`:
    `(t0 <= time) & (endtime <= t1)`; `touching`: `(endtime > t0) & (time < t1)`; `skip`; any other
    mode → `ValueError` (only when a range is given); row selection; `drop_columns` turned into
    `keep_columns` in dtype order; `apply_keep_columns` (dtype order kept, unknown kept column →
    numpy's `ValueError`, unknown dropped column ignored, dropping every column keeps them all
    because the resulting empty list is falsy).
  * `Context.to_absolute_time_range` and the data branch of `estimate_run_start_and_end`
    (run start = first chunk start floored to whole seconds), `int(1e9 * s)` as truncation.
  * the epilogue of `Context.get_iter` (no chunk seen → `ValueError` with a range,
    `DataCorrupted` without), and the slice of `get_components.check_cache` that decides
    whether a partial request loads, computes without saving, computes and saves, or refuses.
  * several same-kind targets: see Model/SelectionMulti.lean (one loader per target feeding
    `Plugin.iter` of the temporary `MergeOnlyPlugin`, `Strax.Align.iterModel`).

  Selection strings / callables are an abstract predicate `Row → Bool` (numexpr is outside).
-/
namespace Strax.Selection
open Strax

abbrev Range := Int × Int

/-! ### loader: pruning and `apply_time_range` -/

/-- "Chunk does not cover any part of range" exactly as coded -/
def pruned (c : Chunk) (r : Range) : Bool := decide (c.stop ≤ r.1) || decide (r.2 ≤ c.start)

/-- left edge of `apply_time_range`: early split allowed, keep the right part -/
def trimLeft (c : Chunk) (r : Range) : Except Err Chunk :=
  if c.start < r.1 then
    match c.split r.1 true with
    | .ok (_, b) => .ok b
    | .error e => .error e
  else .ok c

/-- right edge of `apply_time_range`: strict split, `CannotSplit` swallowed, keep the left part -/
def trimRight (c : Chunk) (r : Range) : Except Err Chunk :=
  if c.stop > r.2 then
    match c.split r.2 false with
    | .ok (a, _) => .ok a
    | .error .cannotSplit => .ok c
    | .error e => .error e
  else .ok c

def applyTimeRange (c : Chunk) (r : Range) : Except Err Chunk :=
  match trimLeft c r with
  | .ok c' => trimRight c' r
  | .error e => .error e

/-- `for x in xs: out.append(f x)`, stopping at the first error -/
def mapE {α β : Type} (f : α → Except Err β) : List α → Except Err (List β)
  | [] => .ok []
  | a :: rest =>
    match f a with
    | .error e => .error e
    | .ok b =>
      match mapE f rest with
      | .error e => .error e
      | .ok bs => .ok (b :: bs)

/-- the chunks a loader yields for a time range (metadata lists at least one chunk) -/
def loadRange (stored : List Chunk) (r : Range) : Except Err (List Chunk) :=
  mapE (fun c => applyTimeRange c r) (stored.filter fun c => !pruned c r)

/-- `StorageBackend.loader(key, time_range)` -/
def loader (stored : List Chunk) (r : Option Range) : Except Err (List Chunk) :=
  if stored.isEmpty then .error .valueError
  else
    match r with
    | none => .ok stored
    | some r => loadRange stored r

/-! ### `apply_selection` -/

inductive Mode where
  | fullyContained
  | touching
  | skip
  | unknown
deriving Repr, DecidableEq, Inhabited

/-- the row-level time predicate of the two real modes (boundary comparisons as coded) -/
def inRange (m : Mode) (r : Range) (x : Row) : Bool :=
  match m with
  | .fullyContained => decide (r.1 ≤ x.time) && decide (x.endt ≤ r.2)
  | .touching => decide (x.endt > r.1) && decide (x.time < r.2)
  | _ => true

/-- rows kept by a time selection plus a row predicate -/
def select (m : Mode) (r : Range) (pred : Row → Bool) (rows : List Row) : List Row :=
  rows.filter fun x => inRange m r x && pred x

/-- `drop_columns` / `keep_columns` handling of `apply_selection` + `apply_keep_columns`;
the empty list plays the role of `None` / an empty tuple (both falsy) -/
def projectCols (fields keep drop : List String) : Except Err (List String) :=
  if !drop.isEmpty && !keep.isEmpty then .error .valueError
  else
    let keep := if !drop.isEmpty then fields.filter (fun f => !drop.contains f) else keep
    if keep.isEmpty then .ok fields
    else if keep.all fields.contains then .ok (fields.filter keep.contains)
    else .error .valueError

structure Sel where
  mode : Mode := .fullyContained
  /-- `None` = no selection (`if selection:` is falsy) -/
  pred : Option (Row → Bool) := none
  keep : List String := []
  drop : List String := []

def Sel.predFn (s : Sel) : Row → Bool :=
  match s.pred with
  | none => fun _ => true
  | some p => p

/-- `strax.apply_selection(x, selection, keep_columns, drop_columns, time_range, time_selection)`
on one chunk's rows; returns the rows and the column names of the result -/
def applySelection (fields : List String) (s : Sel) (r : Option Range) (rows : List Row) :
    Except Err (List Row × List String) :=
  if !s.drop.isEmpty && !s.keep.isEmpty then .error .valueError
  else
    let timed : Except Err (List Row) :=
      match r with
      | none => .ok rows
      | some r =>
        match s.mode with
        | .unknown => .error .valueError
        | m => .ok (rows.filter (inRange m r))
    match timed with
    | .error e => .error e
    | .ok rows1 =>
      let rows2 := match s.pred with
        | none => rows1
        | some p => rows1.filter p
      match projectCols fields s.keep s.drop with
      | .error e => .error e
      | .ok cols => .ok (rows2, cols)

/-! ### `to_absolute_time_range` -/

def nsPerS : Int := 1000000000

/-- seconds as an exact rational `num / den` (the harness only uses values for which the
float product `1e9 * s` is exact) -/
structure Sec where
  num : Int
  den : Nat
deriving Repr, DecidableEq, Inhabited

/-- `int(1e9 * s)`: truncation toward zero -/
def Sec.toNs (s : Sec) : Int := Int.tdiv (nsPerS * s.num) (s.den : Int)

/-- data branch of `estimate_run_start_and_end`: `(int(chunks[0]["start"]) // int(1e9)) * int(1e9)`;
an empty chunk list is an `IndexError` -/
def runStart (stored : List Chunk) : Except Err Int :=
  match stored with
  | [] => .error .other
  | c :: _ => .ok ((c.start / nsPerS) * nsPerS)

structure TimeArgs where
  timeRange : Option Range := none
  secondsRange : Option (Sec × Sec) := none
  timeWithin : Option Range := none
  /-- not an argument of `get_array` but part of the context: `start` of the run document, in whole seconds since
  the epoch, when the storage provides one (`int(t.timestamp())`); `none` = `RunMetadataNotAvailable` → data branch -/
  runDocStartS : Option Int := none
deriving Repr, Inhabited

/-- `estimate_run_start_and_end(run_id, targets)[0]`: the run document's `start` floored to a second
(`int(t.timestamp()) * int(1e9)`) when there is one, else the data branch `runStart` -/
def estimateRunStart (stored : List Chunk) (a : TimeArgs) : Except Err Int :=
  match a.runDocStartS with
  | some s => .ok (s * nsPerS)
  | none => runStart stored

/-- `Context.to_absolute_time_range` as `get_iter` calls it (`full_range` is never passed, so it
always counts as one `None`): with all three given → `RuntimeError`; any two are accepted and
the later assignment wins (`time_within` over `seconds_range` over `time_range`). -/
def toAbsolute (stored : List Chunk) (a : TimeArgs) : Except Err (Option Range) :=
  let nNone := (if a.timeRange.isNone then 1 else 0) + (if a.secondsRange.isNone then 1 else 0)
    + (if a.timeWithin.isNone then 1 else 0) + 1
  if nNone < 2 then .error .runtimeError
  else
    let afterSec : Except Err (Option Range) :=
      match a.secondsRange with
      | none => .ok a.timeRange
      | some (s0, s1) =>
        match estimateRunStart stored a with
        | .error e => .error e
        | .ok t0 => .ok (some (t0 + s0.toNs, t0 + s1.toNs))
    match afterSec with
    | .error e => .error e
    | .ok tr =>
      match a.timeWithin with
      | some w => .ok (some w)
      | none => .ok tr

/-! ### `get_iter` -/

/-- after the loop: `if not seen_a_chunk: raise DataCorrupted if time_range is None else ValueError` -/
def epilogue (seen : Bool) (r : Option Range) : Except Err Unit :=
  if seen then .ok ()
  else
    match r with
    | none => .error .dataCorrupted
    | some _ => .error .valueError

/-- selection applied to every yielded chunk, results concatenated (`get_array`), epilogue -/
def collect (fields : List String) (s : Sel) (r : Option Range) (chunks : List (List Row)) :
    Except Err (List Row × List String) :=
  match mapE (applySelection fields s r) chunks with
  | .error e => .error e
  | .ok [] =>
    match epilogue false r with
    | .error e => .error e
    | .ok _ => .error .other        -- unreachable: `epilogue false` always raises
  | .ok (p :: ps) => .ok ((p :: ps).flatMap (·.1), p.2)

/-- `get_array(run, target, …)` for one stored target.  Stages (conversion of the time
arguments, loader, per-chunk selection, epilogue) are run one after the other; in the code they
are interleaved per chunk, which only matters for which of two errors is seen first. -/
def getArray (fields : List String) (stored : List Chunk) (a : TimeArgs) (s : Sel) :
    Except Err (List Row × List String) :=
  match toAbsolute stored a with
  | .error e => .error e
  | .ok r =>
    match loader stored r with
    | .error e => .error e
    | .ok chunks => collect fields s r (chunks.map (·.rows))

/-! ### partial requests never save (`get_components.check_cache`, single-output plugin) -/

inductive SaveWhen where
  | never | explicit | target | always
deriving Repr, DecidableEq, Inhabited

def SaveWhen.toNat : SaveWhen → Nat
  | .never => 0 | .explicit => 1 | .target => 2 | .always => 3

inductive Plan where
  | load            -- stored: a loader, no plugin, no saver
  | computeSave
  | computeNoSave
deriving Repr, DecidableEq, Inhabited

/-- `Context._target_should_be_saved` -/
def targetShouldBeSaved (sw : SaveWhen) (isTarget inSave : Bool) : Except Err Bool :=
  match sw with
  | .never => if inSave then .error .valueError else .ok false
  | .target => .ok isTarget
  | .explicit => .ok inSave
  | .always => .ok true

/-- what `check_cache` decides for one data type of a single-output plugin -/
def savePlan (stored : Bool) (sw : SaveWhen) (isTarget inSave hasRange hasSel hasCols : Bool) :
    Except Err Plan :=
  if stored then .ok .load
  else if hasRange && decide (sw.toNat > SaveWhen.explicit.toNat) then .error .dataNotAvailable
  else
    match targetShouldBeSaved sw isTarget inSave with
    | .error e => .error e
    | .ok false => .ok .computeNoSave
    | .ok true =>
      if hasRange || hasSel || hasCols then .ok .computeNoSave else .ok .computeSave

/-! ### hypotheses of the theorems, as decidable predicates -/

/-- a chunk as `_read_and_format_chunk` builds it for ordinary (non-superrun) data:
no sub-runs, run id given, `superrun = {run_id: (start, end)}` -/
def plainB (c : Chunk) : Bool :=
  c.subruns.isNone &&
    (match c.runId with
     | some rid => decide (c.superrun = [⟨rid, c.start, c.stop⟩])
     | none => false)

/-- one chunk obeys the laws: `0 ≤ start ≤ end`, every row of positive duration inside the chunk
(same definition as `Strax.Align.chunkOKB`; equality is checked in Model/SelectionMulti.lean) -/
def chunkOKB (c : Chunk) : Bool :=
  decide (0 ≤ c.start) && decide (c.start ≤ c.stop) &&
    c.rows.all (fun r => decide (c.start ≤ r.time) && decide (r.time < r.endt) && decide (r.endt ≤ c.stop))

def adjacentB : List Chunk → Bool
  | a :: b :: rest => decide (a.stop = b.start) && adjacentB (b :: rest)
  | _ => true

/-- stored layout of ordinary data: the laws of chunking (`0 ≤ start ≤ end`, adjacent chunks,
rows of positive duration inside their chunk, all rows sorted by time) and every chunk plain -/
def lawAbidingB (cs : List Chunk) : Bool :=
  cs.all chunkOKB && adjacentB cs && sortedByTimeB (cs.flatMap (·.rows)) && cs.all plainB

def LawAbiding (cs : List Chunk) : Prop := lawAbidingB cs = true
instance (cs : List Chunk) : Decidable (LawAbiding cs) := by unfold LawAbiding; infer_instance

/-- all rows of a chunk list in order -/
def allRows (cs : List Chunk) : List Row := cs.flatMap (·.rows)

/-- the time span `[start of first chunk, end of last chunk)` covered by a layout -/
def span (cs : List Chunk) : Option Range :=
  match cs with
  | [] => none
  | c :: rest => some (c.start, ((c :: rest).getLast (by simp)).stop)

end Strax.Selection
