import StraxModel.Model.Storage
/-
  Theory for property C16: copying, stand-alone rechunking, rechunking on load and per-chunk
  processing followed by merging, on top of the saver / loader protocol of Model/Storage.lean (C03)
  and the chunk algebra / rechunker of Model/{Chunk,Rechunk}.lean (C07).  Core Lean only.

  What is mirrored from the code as it is (odd corners included):

  * `Context.copy_to_frontend`: the SOURCE metadata dict is reused for the destination saver; the
    target size is replaced only when `rechunk` is on; every loaded chunk gets
    `target_size_mb = md["chunk_target_size_mb"]`; the destination directory has the same name
    (same `DataKey`), hence the same file-name prefix.
  * `strax.rechunker` (storage/file_rechunker.py): metadata is read first, then the loader
    GENERATOR is created (it does not run yet), then the saver is created — `FileSaver.__init__`
    removes an existing destination directory and an existing `<dest>_temp` — and only then the
    loader starts.  `replace` runs `rmtree(source)`, `move(dest, source)` only after `save_from`
    returned and the destination exists.  `FileSytemBackend(set_target_chunk_mb=t)` stamps `t` on
    every loaded chunk; the metadata gets `chunk_target_size_mb = t` iff `t` is given.
    Since fix D24 `rechunker()` raises ValueError before touching anything when the destination
    resolves to the source directory itself (`destGuard = true`).  Before the fix
    (`guard = false`) the saver's constructor removed the source before anything was read; the
    loader then found the saver's fresh temp metadata ("no chunks": ValueError), `save_from` closed
    the saver with the exception recorded and renamed the (empty) temp directory over the source
    path — `Props/C16.lean: source_destroyed_old_counterexample`.
  * rechunk on load (`StorageBackend._read_format_split_chunk`): per loaded chunk,
    `Rechunker.get_splits(chunk.data, source_size_mb * 1e6)` and the same split loop as
    `Rechunker.receive`, WITHOUT a cache: chunks are only ever split, never joined.  Since fix D25
    the chunk is read synchronously when rechunking; before it, a loader that was handed an executor
    called `get_splits` on the Future (`AttributeError`) — `rechunkOnLoadExec false true`.
  * per-chunk processing: `chunk_number = {dep: [i..j]}` restricts the loader of `dep` to those
    chunks; the result is saved under a key whose lineage carries `chunk_number`
    (`__assign_chunk_number_to_plugin`: every lineage entry whose plugin depends directly on `dep`
    gets `configs["chunk_number"][dep]`; a second assignment raises ValueError; the list must be
    consecutive integers).  `merge_per_chunk_storage` loads the per-chunk results in the order of
    `chunk_number_group`, stamps the target size (the requested one only if `rechunk`), and saves
    the concatenation through one saver whose metadata is the PLUGIN's (its own target size and
    compressor — `rechunk_to_mb` / `target_compressor` never reach the destination metadata).  The
    destination key drops `chunk_number` as soon as `min = 0` and `max = #chunks - 1` of the combined
    numbers (completeness and order of the groups are not checked).
-/
namespace Strax.Copy
open Strax Strax.Storage

/-- a stored data type: its metadata and its chunk files -/
abbrev Dir := Meta × Files

def loadDir (d : Dir) : Except Err (List Chunk) := loadAll d.1 d.2

/-- `data.target_size_mb = …` on a loaded chunk -/
def setTarget (t : Nat) (c : Chunk) : Chunk := { c with target := t }

/-! ## 1. `Context.copy_to_frontend` -/

/-- the metadata header the destination saver is created with -/
def copyHeader (hdr : Header) (rechunk : Bool) (rechunkTo : Nat) : Header :=
  if rechunk then { hdr with target := rechunkTo } else hdr

/-- `copy_to_frontend(run, target, rechunk=…, rechunk_to_mb=…)` for one destination frontend:
what the destination directory holds afterwards. -/
def copyData (a0 : Int) (src : Dir) (rechunk : Bool) (rechunkTo : Nat) : Except Err Dir := do
  let hdr := copyHeader src.1.hdr rechunk rechunkTo
  let loaded ← loadDir src
  saveAll a0 rechunk hdr (loaded.map (setTarget hdr.target))

/-- In the current source the loader generator is created INSIDE the `for t_sf in target_sf` loop
("Need to load a new loader each time since it's a generator and will be exhausted otherwise");
`false` is the variant with one loader created before the loop and shared by all targets. -/
def loaderPerTarget : Bool := true

/-- the `for t_sf in target_sf:` loop of `copy_to_frontend`.  A loader is a generator: `shared` is
what a loader created OUTSIDE the loop still has to yield.  Per target: `loader = s_be.loader(…)`
(only when `fresh`), then `saver.save_from(wrapped_loader(), rechunk)` which consumes the loader to
exhaustion.  An exception (other than NotImplementedError) leaves the loop: the remaining targets
are not filled. -/
def copyLoop (a0 : Int) (src : Dir) (hdr : Header) (rechunk fresh : Bool) : List Chunk → Nat → List (Except Err Dir)
  | _, 0 => []
  | shared, n + 1 =>
    let loader : Except Err (List Chunk) := if fresh then loadDir src else .ok shared
    match loader with
    | .error e => [.error e]
    | .ok cs =>
      match saveAll a0 rechunk hdr (cs.map (setTarget hdr.target)) with
      | .error e => [.error e]
      | .ok d => .ok d :: copyLoop a0 src hdr rechunk fresh [] n      -- the saver exhausted the generator

/-- `copy_to_frontend(run, target, target_frontend_id=None)`: every frontend that does not have the
data yet, takes it and is writable is filled in turn; one result per target reached. -/
def copyToAll (a0 : Int) (fresh : Bool) (src : Dir) (rechunk : Bool) (rechunkTo : Nat) (nTargets : Nat) :
    List (Except Err Dir) :=
  let hdr := copyHeader src.1.hdr rechunk rechunkTo
  if fresh then copyLoop a0 src hdr rechunk true [] nTargets
  else
    match loadDir src with
    | .error e => if nTargets = 0 then [] else [.error e]
    | .ok cs => copyLoop a0 src hdr rechunk false cs nTargets

/-! ## 2. the stand-alone rechunker over a store of directories -/

/-- the directories the rechunker can touch: the source, `<dest>_temp`, the destination.
`aliased`: the destination path IS the source path. -/
structure Store where
  src : Option Dir
  tmp : Option Dir
  dst : Option Dir
  aliased : Bool
deriving Repr, DecidableEq

def Store.getDst (s : Store) : Option Dir := if s.aliased then s.src else s.dst
def Store.setDst (s : Store) (v : Option Dir) : Store :=
  if s.aliased then { s with src := v } else { s with dst := v }

/-- directory-level operations issued by `rechunker()` -/
inductive FsOp where
  /-- `FileSaver.__init__`: rmtree(dest_temp) if it exists, an existing dest is moved aside and
  removed, makedirs(dest_temp), first metadata flush -/
  | initTemp (hdr : Header)
  /-- `save_file` of one chunk into the temp directory -/
  | writeChunk (fn : String) (rows : List Row)
  /-- `FileSaver._close`: final metadata flush, rename(dest_temp, dest) -/
  | closeRename (md : Meta)
  /-- `shutil.rmtree(source_directory)` -/
  | rmSrc
  /-- `shutil.move(dest_directory, source_directory)` -/
  | moveDst
deriving Repr, DecidableEq

def FsOp.kind : FsOp → String
  | .initTemp _ => "init"
  | .writeChunk _ _ => "w"
  | .closeRename _ => "close"
  | .rmSrc => "rm"
  | .moveDst => "mv"

/-- metadata right after `Saver.__init__` -/
def freshMeta (hdr : Header) : Meta := (Saver.init hdr).md

def applyOp (s : Store) : FsOp → Store
  | .initTemp hdr => { s.setDst none with tmp := some (freshMeta hdr, []) }
  | .writeChunk fn rows =>
    match s.tmp with
    | some (md, fs) => { s with tmp := some (md, writeFile fs fn rows) }
    | none => s
  | .closeRename md =>
    match s.tmp with
    | some (_, fs) => { s.setDst (some (md, fs)) with tmp := none }
    | none => s
  | .rmSrc => { s with src := none }
  | .moveDst =>
    match s.getDst with
    | some d => { s.setDst none with src := some d }
    | none => s

def runOps (s : Store) (ops : List FsOp) : Store := ops.foldl applyOp s

/-- header of the rewritten data: `chunk_target_size_mb` replaced iff a target is given -/
def rechunkHeader (hdr : Header) (target : Option Nat) : Header :=
  match target with
  | some t => { hdr with target := t }
  | none => hdr

/-- `FileSytemBackend(set_target_chunk_mb=t)._read_and_format_chunk` -/
def stamp (target : Option Nat) (c : Chunk) : Chunk :=
  match target with
  | some t => setTarget t c
  | none => c

/-- what a saver that saw only an exception leaves behind; the metadata dict it was created with is
the SOURCE's, so the source's overall `start` / `end` are still in it (`close` only replaces them
when there are chunks) -/
def failedMeta (hdr : Header) (src : Meta) : Meta :=
  { freshMeta hdr with start := src.start, stop := src.stop, exception := true, writingEnded := true }

/-- the check `realpath(dest_directory) == realpath(source_directory) → ValueError` exists in the
current source (fix D24); `false` is the code before the fix -/
def destGuard : Bool := true

/-- `strax.rechunker(source, dest, replace, target_size_mb, rechunk)`: the directory-level
operations it issues, in order, and the exception the caller sees, if any.  `guard`: see
`destGuard`. -/
def rechunkPlan (a0 : Int) (guard : Bool) (st : Store) (replace rechunk : Bool) (target : Option Nat) :
    List FsOp × Option Err :=
  match st.src with
  | none => ([], some Err.osError)                 -- "No file at <source>"
  | some d =>
    if guard && st.aliased then ([], some Err.valueError) else
    let hdr := rechunkHeader d.1.hdr target
    -- the saver is created BEFORE the loader generator takes its first step
    let st1 := applyOp st (.initTemp hdr)
    let loaded : Except Err (List Chunk) :=
      match st1.src with
      | some d1 => loadDir d1
      | none => .error Err.valueError               -- the temp metadata: "it has no chunks"
    match loaded with
    | .error e => ([.initTemp hdr, .closeRename (failedMeta hdr d.1)], some e)
    | .ok cs =>
      let (sv, e) := saveFrom a0 rechunk hdr (cs.map (stamp target))
      let ops := FsOp.initTemp hdr :: sv.files.map (fun p => FsOp.writeChunk p.1 p.2) ++ [.closeRename sv.md]
      (if e.isNone && replace then ops ++ [.rmSrc, .moveDst] else ops, e)

/-- the store after `rechunker()` returned or raised -/
def standaloneRechunk (a0 : Int) (guard : Bool) (st : Store) (replace rechunk : Bool) (target : Option Nat) :
    Store × Option Err :=
  let (ops, e) := rechunkPlan a0 guard st replace rechunk target
  (runOps st ops, e)

/-! ## 3. rechunk on load -/

/-- `_read_format_split_chunk(rechunk=True)` applied to one loaded chunk -/
def splitLoaded (a0 : Int) (sourceSize : Nat) (c : Chunk) : Except Err (List Chunk) := do
  let splits ← getSplits a0 c.rows sourceSize DEFAULT_CHUNK_SPLIT_NS
  let (out, rest) ← splitOff c (adjDiff splits)
  pure (out ++ [rest])

/-- a loader's output passed through the per-chunk splitter -/
def rechunkStream (a0 : Int) (sourceSize : Nat) : List Chunk → Except Err (List Chunk)
  | [] => pure []
  | c :: cs => do
    let a ← splitLoaded a0 sourceSize c
    let b ← rechunkStream a0 sourceSize cs
    pure (a ++ b)

/-- `backend.loader(key, rechunk=True, source_size_mb=…)` -/
def rechunkOnLoad (a0 : Int) (sourceSize : Nat) (d : Dir) : Except Err (List Chunk) :=
  loadDir d >>= rechunkStream a0 sourceSize

/-- the same loader when it is handed an executor.  `fixed = true` (the current source, fix D25):
the chunk is read synchronously whenever it has to be split; `fixed = false`: `get_splits` was
called on the Future — AttributeError. -/
def rechunkOnLoadExec (fixed executor : Bool) (a0 : Int) (sourceSize : Nat) (d : Dir) : Except Err (List Chunk) :=
  if executor && !fixed then loadDir d >>= fun _ => throw Err.other
  else rechunkOnLoad a0 sourceSize d

/-! ## 4. per-chunk processing and merging -/

/-- cut a list into consecutive groups of the given sizes (what is left over is dropped) -/
def splitGroups {α : Type} : List Nat → List α → List (List α)
  | [], _ => []
  | n :: ns, l => l.take n :: splitGroups ns (l.drop n)

/-- apply a per-chunk computation to every chunk of a stream -/
def mapChunks (f : Chunk → Except Err Chunk) : List Chunk → Except Err (List Chunk)
  | [] => pure []
  | c :: cs => do
    let a ← f c
    let b ← mapChunks f cs
    pure (a :: b)

/-- a row-wise plugin as a per-chunk computation: keep the rows satisfying `p`, relabel the chunk
with the plugin's data type and target size (`self.chunk(start=…, end=…, data=…)`) -/
def filterChunk (dataType : String) (target : Nat) (p : Row → Bool) (c : Chunk) : Chunk :=
  { c with dataType := dataType, rows := c.rows.filter p, target := target }

/-- one per-chunk job: the loader restricted to the chunks of the group, the plugin's computation
chunk by chunk, the result saved under the per-chunk key -/
def perChunkJob (a0 : Int) (f : Chunk → Except Err Chunk) (hdr : Header) (rechunkOnSave : Bool)
    (group : List Chunk) : Except Err Dir :=
  mapChunks f group >>= saveAll a0 rechunkOnSave hdr

/-- the `wrapped_loader` of `merge_per_chunk_storage` for one stored per-chunk result -/
def loadJob (rechunk : Bool) (rechunkTo : Nat) (d : Dir) : Except Err (List Chunk) := do
  let cs ← loadDir d
  let t := if rechunk then rechunkTo else d.1.hdr.target
  pure (cs.map (setTarget t))

def loadJobs (rechunk : Bool) (rechunkTo : Nat) : List Dir → Except Err (List Chunk)
  | [] => pure []
  | d :: ds => do
    let a ← loadJob rechunk rechunkTo d
    let b ← loadJobs rechunk rechunkTo ds
    pure (a ++ b)

/-- `merge_per_chunk_storage`: the per-chunk results in the order of `chunk_number_group`,
concatenated and saved as one data type with the plugin's own metadata header. -/
def perChunkMerge (a0 : Int) (jobs : List Dir) (rechunk : Bool) (rechunkTo : Nat) (hdr : Header) :
    Except Err Dir :=
  loadJobs rechunk rechunkTo jobs >>= saveAll a0 rechunk hdr

/-- one job per group, each with the header of its own per-chunk key -/
def runJobs (a0 : Int) (f : Chunk → Except Err Chunk) (rechunkOnSave : Bool) :
    List Header → List (List Chunk) → Except Err (List Dir)
  | h :: hs, g :: gs => do
    let d ← perChunkJob a0 f h rechunkOnSave g
    let ds ← runJobs a0 f rechunkOnSave hs gs
    pure (d :: ds)
  | _, _ => pure []

/-- the whole procedure on a stored dependency: jobs over consecutive groups, then the merge -/
def perChunkPipeline (a0 : Int) (f : Chunk → Except Err Chunk) (jobHdrs : List Header) (rechunkOnSave : Bool)
    (groups : List (List Chunk)) (rechunk : Bool) (rechunkTo : Nat) (hdr : Header) : Except Err Dir :=
  runJobs a0 f rechunkOnSave jobHdrs groups >>= fun ds => perChunkMerge a0 ds rechunk rechunkTo hdr

/-! ### which key the merged data is stored under -/

def hasDup : List Nat → Bool
  | [] => false
  | a :: as => as.contains a || hasDup as

def listMin : List Nat → Option Nat
  | [] => none
  | a :: as => some (as.foldl min a)
def listMax : List Nat → Option Nat
  | [] => none
  | a :: as => some (as.foldl max a)

/-- `_check_chunk_number`: a list of consecutive integers -/
def consecutive : List Nat → Bool
  | [] => true
  | [_] => true
  | a :: b :: rest => decide (b = a + 1) && consecutive (b :: rest)

/-- `_chunk_number` of `merge_per_chunk_storage`: `none` = the plain key of the target -/
def mergeChunkNumber (nChunks : Nat) (groups : List (List Nat)) : Except Err (Option (List Nat)) :=
  let combined := groups.flatten
  if hasDup combined then throw Err.valueError
  else
    match listMin combined, listMax combined with
    | some lo, some hi =>
      if lo = 0 && hi + 1 = nChunks then pure none else pure (some combined)
    | _, _ => throw Err.valueError                 -- min() of an empty sequence

/-! ## 5. `chunk_number` in the lineage -/

/-- one lineage entry `last_provide ↦ (class, version, tracked config)`; `deps` is the
`depends_on` of the plugin providing it (looked up by `__assign_chunk_number_to_plugin`);
`chunkNumber` is `configs["chunk_number"]` (absent = empty) -/
structure Entry where
  provide : String
  deps : List String
  cfg : List (String × String)
  chunkNumber : List (String × List Nat)
deriving Repr, DecidableEq

abbrev Lineage := List Entry

/-- the `for d in p.depends_on` loop of `__assign_chunk_number_to_plugin` for one lineage entry -/
def tagDeps (cn : List (String × List Nat)) : List String → List (String × List Nat) →
    Except Err (List (String × List Nat))
  | [], acc => pure acc
  | d :: ds, acc =>
    match cn.lookup d with
    | none => tagDeps cn ds acc
    | some g =>
      if !consecutive g then throw Err.valueError
      else if (acc.lookup d).isSome then throw Err.valueError   -- "already set in the lineage"
      else tagDeps cn ds (acc ++ [(d, g)])

def tagEntry (cn : List (String × List Nat)) (e : Entry) : Except Err Entry :=
  if e.deps.any (fun d => (cn.lookup d).isSome) then do
    let t ← tagDeps cn e.deps e.chunkNumber
    pure { e with chunkNumber := t }
  else pure e

def tagLineage (cn : List (String × List Nat)) : Lineage → Except Err Lineage
  | [] => pure []
  | e :: es => do
    let a ← tagEntry cn e
    let b ← tagLineage cn es
    pure (a :: b)

/-- `key_for(run, target, chunk_number=…)`: the lineage hash of the (tagged) lineage.  The hash is
a parameter; the theorems assume it injective. -/
def keyFor {H : Type} (hash : Lineage → H) (lin : Lineage) (cn : Option (List (String × List Nat))) :
    Except Err H :=
  match cn with
  | none => pure (hash lin)
  | some cn => (tagLineage cn lin).map hash

end Strax.Copy
