import StraxModel.Driver.C01
import StraxModel.Driver.C02
import StraxModel.Driver.C03
import StraxModel.Driver.C04
import StraxModel.Driver.C05
import StraxModel.Driver.C06
import StraxModel.Driver.C07
import StraxModel.Driver.C08
import StraxModel.Driver.C09
import StraxModel.Driver.C10
import StraxModel.Driver.C11
import StraxModel.Driver.C12
import StraxModel.Driver.C13
import StraxModel.Driver.C14
import StraxModel.Driver.C15
import StraxModel.Driver.C16
import StraxModel.Driver.C17
import StraxModel.Driver.C18
import StraxModel.Driver.C19
/-
  Line-protocol driver: one op per input line, one canonical output line per op.
  Unknown or malformed ops answer `bad-op` (never a default value).
-/
open Strax.Driver

def handlers : List (List String → Option String) := [
  handleC01, handleC02, handleC03, handleC04, handleC05, handleC06, handleC07, handleC08, handleC09, handleC10, handleC11, handleC12, handleC13, handleC14, handleC15, handleC16, handleC17, handleC18, handleC19]

def step (line : String) : String :=
  let toks := (line.trimAscii.toString.splitOn " ").filter (· ≠ "")
  match handlers.findSome? (· toks) with
  | some out => out
  | none => "bad-op"

partial def loop (h : IO.FS.Stream) (out : IO.FS.Stream) : IO Unit := do
  let line ← h.getLine
  if line.isEmpty then return ()
  out.putStrLn (step line)
  loop h out

def main : IO Unit := do
  let out ← IO.getStdout
  loop (← IO.getStdin) out
  out.flush
