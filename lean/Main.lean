import StraxModel.Driver.C07
/-
  Line-protocol driver: one op per input line, one canonical output line per op.
  Unknown or malformed ops answer `bad-op` (never a default value).
-/
open Strax.Driver

def handlers : List (List String → Option String) := [handleC07]

def step (line : String) : String :=
  let toks := (line.trimAscii.toString.splitOn " ").filter (· ≠ "")
  match handlers.findSome? (· toks) with
  | some out => out
  | none => "bad-op"

partial def loop (h : IO.FS.Stream) (out : IO.FS.Stream) : IO Unit := do
  let line ← h.getLine
  if line.isEmpty then return ()
  out.putStrLn (step line)
  loop h out

def main : IO Unit := do
  let out ← IO.getStdout
  loop (← IO.getStdin) out
  out.flush
